(** Node numbers: the nodes inside a comprehension's scope lie strictly inside its sub-tree, and whatever the
    re-evaluator records while it visits a sub-tree - in any state, placeholders included - carries a node number of
    that sub-tree.  Used by ExprSound.v to discount what the speculative visits of comprehension parts record. *)
From Coq Require Import List String ZArith Bool Arith Lia.
From ICV Require Import Expr Message ExprRefine.
Import ListNotations.
Open Scope string_scope.
Open Scope list_scope.

(** ** nodes inside a comprehension lie strictly inside the sub-tree *)
Lemma inner_range_all :
  (forall e i j, In j (inner_nodes i e) -> i < j < i + size e) /\
  (forall es i j, In j (inner_l i es) -> i <= j < i + size_l es) /\
  (forall ks i j, In j (inner_k i ks) -> i <= j < i + size_k ks) /\
  (forall cs i j, In j (inner_c i cs) -> i <= j < i + size_c cs) /\
  (forall ps i j, In j (inner_p i ps) -> i <= j < i + size_p ps) /\
  (forall ds i j, In j (inner_d i ds) -> i <= j < i + size_d ds) /\
  (forall gs : gens, True).
Proof.
  apply expr_mutind; try (intros; exact I);
    try (intros; cbn [inner_nodes inner_l inner_k inner_c inner_p inner_d] in *; contradiction).
  - (* EAttr *) intros e IH a i j H. cbn [inner_nodes size] in *. apply IH in H. lia.
  - (* ESub *) intros a IHa b IHb i j H. cbn [inner_nodes size] in *. apply in_app_or in H as [H|H]; [apply IHa in H|apply IHb in H]; lia.
  - (* ESlice *) intros a IHa b IHb i j H. cbn [inner_nodes size] in *. apply in_app_or in H as [H|H]; [apply IHa in H|apply IHb in H]; lia.
  - (* ECall *) intros f IHf xs IHx ks IHk i j H. cbn [inner_nodes size] in *.
    apply in_app_or in H as [H|H]; [apply IHf in H; lia|].
    apply in_app_or in H as [H|H]; [apply IHx in H|apply IHk in H]; lia.
  - (* EStar *) intros e IH i j H. cbn [inner_nodes size] in *. apply IH in H. lia.
  - (* EUn *) intros o e IH i j H. cbn [inner_nodes size] in *. apply IH in H. lia.
  - (* EBin *) intros o a IHa b IHb i j H. cbn [inner_nodes size] in *. apply in_app_or in H as [H|H]; [apply IHa in H|apply IHb in H]; lia.
  - (* EBool *) intros b es IH i j H. cbn [inner_nodes size] in *. apply IH in H. lia.
  - (* ECmp *) intros l IHl cs IHc i j H. cbn [inner_nodes size] in *. apply in_app_or in H as [H|H]; [apply IHl in H|apply IHc in H]; lia.
  - (* EIf *) intros a IHa b IHb c IHc i j H. cbn [inner_nodes size] in *.
    apply in_app_or in H as [H|H]; [apply IHa in H; lia|].
    apply in_app_or in H as [H|H]; [apply IHb in H|apply IHc in H]; lia.
  - (* ENamed *) intros t e IH i j H. cbn [inner_nodes size] in *. apply IH in H. lia.
  - (* EFStr *) intros ps IH i j H. cbn [inner_nodes size] in *. apply IH in H. lia.
  - (* EList *) intros es IH i j H. cbn [inner_nodes size] in *. apply IH in H. lia.
  - (* ETuple *) intros es IH i j H. cbn [inner_nodes size] in *. apply IH in H. lia.
  - (* EDict *) intros ds IH i j H. cbn [inner_nodes size] in *. apply IH in H. lia.
  - (* EComp *) intros k a _ b _ gs _ i j H. cbn [inner_nodes size] in *. unfold range in H. apply in_seq in H. lia.
  - (* ECons *) intros e IHe r IHr i j H. cbn [inner_l size_l] in *. apply in_app_or in H as [H|H]; [apply IHe in H|apply IHr in H]; lia.
  - (* KCons *) intros n e IHe r IHr i j H. cbn [inner_k size_k] in *. apply in_app_or in H as [H|H]; [apply IHe in H|apply IHr in H]; lia.
  - (* CCons *) intros o e IHe r IHr i j H. cbn [inner_c size_c] in *. apply in_app_or in H as [H|H]; [apply IHe in H|apply IHr in H]; lia.
  - (* PLit *) intros s r IHr i j H. cbn [inner_p size_p] in *. apply IHr in H. lia.
  - (* PFmt *) intros e IHe c r IHr i j H. cbn [inner_p size_p] in *. apply in_app_or in H as [H|H]; [apply IHe in H|apply IHr in H]; lia.
  - (* DCons *) intros k IHk v IHv r IHr i j H. cbn [inner_d size_d] in *.
    apply in_app_or in H as [H|H]; [apply IHk in H; lia|].
    apply in_app_or in H as [H|H]; [apply IHv in H|apply IHr in H]; lia.
  - (* DStar *) intros e IHe r IHr i j H. cbn [inner_d size_d] in *. apply in_app_or in H as [H|H]; [apply IHe in H|apply IHr in H]; lia.
Qed.

(** ** whatever the re-evaluator records while it visits a sub-tree carries a node number of that sub-tree *)
Definition Ext {V} (lo hi : nat) (t t' : gst V) : Prop :=
  exists ext, snd t' = snd t ++ ext /\ Forall (fun p : nat * val => lo <= fst p < hi) ext.

Definition Bounded {V A} (lo hi : nat) (m : GM V A) : Prop :=
  forall t a t', m t = Ok (a, t') -> Ext lo hi t t'.

Lemma Ext_refl {V} lo hi (t : gst V) : Ext lo hi t t.
Proof. exists []. rewrite app_nil_r. split; [reflexivity|constructor]. Qed.

Lemma Ext_same_log {V} lo hi (t t' : gst V) : snd t' = snd t -> Ext lo hi t t'.
Proof. intro H. exists []. rewrite app_nil_r. split; [exact H|constructor]. Qed.

Lemma Ext_trans {V} lo hi (t t1 t2 : gst V) : Ext lo hi t t1 -> Ext lo hi t1 t2 -> Ext lo hi t t2.
Proof.
  intros (e1 & H1 & F1) (e2 & H2 & F2). exists (e1 ++ e2). split.
  - rewrite H2, H1, app_assoc. reflexivity.
  - apply Forall_app. split; assumption.
Qed.

Lemma Ext_weaken {V} a b lo hi (t t' : gst V) : Ext a b t t' -> lo <= a -> b <= hi -> Ext lo hi t t'.
Proof.
  intros (e & H & F) Ha Hb. exists e. split; [exact H|].
  eapply Forall_impl; [|exact F]. cbn. intros p Hp. lia.
Qed.

Lemma Bounded_weaken {V A} a b lo hi (m : GM V A) : Bounded a b m -> lo <= a -> b <= hi -> Bounded lo hi m.
Proof. intros H Ha Hb t x t' E. eapply Ext_weaken; [exact (H t x t' E)|exact Ha|exact Hb]. Qed.

Lemma Bounded_bind {V A B} lo hi (m : GM V A) (k : A -> GM V B) :
  Bounded lo hi m -> (forall a, Bounded lo hi (k a)) -> Bounded lo hi (bindM m k).
Proof.
  intros Hm Hk t b t' E. apply bind_ok in E as (a & s1 & E1 & E2).
  eapply Ext_trans; [exact (Hm _ _ _ E1)|exact (Hk a _ _ _ E2)].
Qed.

Lemma Bounded_ret {V A} lo hi (a : A) : Bounded lo hi (@ret V A a).
Proof. intros t x t' E. unfold ret in E. injection E as _ <-. apply Ext_refl. Qed.

Lemma Bounded_fail {V A} lo hi e : Bounded lo hi (@fail V A e).
Proof. intros t x t' E. discriminate. Qed.

Lemma Bounded_lift {V A} lo hi (r : res A) : Bounded lo hi (@lift V A r).
Proof. intros t x t' E. apply lift_ok in E as [_ ->]. apply Ext_refl. Qed.

Lemma Bounded_get {V} lo hi : Bounded lo hi (@get_env V).
Proof. intros t x t' E. unfold get_env in E. injection E as _ <-. apply Ext_refl. Qed.

Lemma Bounded_put {V} lo hi (m : genv V) : Bounded lo hi (put_env m).
Proof. intros t x t' E. unfold put_env in E. injection E as _ <-. apply Ext_same_log. reflexivity. Qed.

Lemma Bounded_record {V} lo hi i v : lo <= i < hi -> Bounded lo hi (@record V i v).
Proof.
  intros Hi t x t' E. unfold record in E. injection E as _ <-. exists [(i, v)]. split; [reflexivity|].
  constructor; [exact Hi|constructor].
Qed.

Lemma Bounded_speculative {V A} lo hi (m : GM V A) : Bounded lo hi m -> Bounded lo hi (speculative m).
Proof.
  intros H t x t' E. unfold speculative in E. destruct (m t) as [[a s1]|] eqn:Em; [|discriminate].
  injection E as <- <-. exact (H _ _ _ Em).
Qed.

Section Range.
Variable P : prims.

Definition Be (e : expr) : Prop := forall i, Bounded i (i + size e) (rc P i e).
Definition Bl (es : exprs) : Prop :=
  (forall i, Bounded i (i + size_l es) (rc_args P i es)) /\
  (forall b i seen, Bounded i (i + size_l es) (rc_bool P b i es seen)) /\
  (forall i, Bounded i (i + size_l es) (rc_ifs P i es)).
Definition Bk (ks : kwds) : Prop := forall i, Bounded i (i + size_k ks) (rc_kwds P i ks).
Definition Bc (cs : cmps) : Prop := forall l i seen res, Bounded i (i + size_c cs) (rc_cmps P l i cs seen res).
Definition Bp (ps : parts) : Prop := forall i, Bounded i (i + size_p ps) (rc_parts P i ps).
Definition Bd (ds : dpairs) : Prop := forall i, Bounded i (i + size_d ds) (rc_dpairs P i ds).
Definition Bg (gs : gens) : Prop := forall i, Bounded i (i + size_g gs) (rc_gens P i gs).

Lemma head_bounded g :
  Bl (ECons g ENil) -> (forall e1, g <> EStar e1) -> forall j, Bounded j (j + size g) (rc P j g).
Proof.
  intros [H _] Hn j t a t' E.
  assert (E2 : rc_args P j (ECons g ENil) t = Ok ([a], t')).
  { assert (Rc : rc_args P j (ECons g ENil) = (x <- rc P j g ;; rest <- rc_args P (j + size g) ENil ;; ret (x :: rest))).
    { destruct g; try reflexivity. exfalso. eapply Hn. reflexivity. }
    rewrite Rc. rewrite (bind_eq _ _ _ _ _ E). reflexivity. }
  apply H in E2. eapply Ext_weaken; [exact E2|lia|cbn [size_l]; lia].
Qed.

Ltac sz := cbn [size size_l size_k size_c size_p size_d size_g]; lia.

Ltac use_ih :=
  match goal with
  | IH : forall i, Bounded i (i + size _) (rc P i _) |- _ => eapply Bounded_weaken; [apply IH|sz|sz]
  | IH : Bl (ECons ?g ENil) |- Bounded _ _ (rc P _ ?g) =>
      eapply Bounded_weaken; [apply (head_bounded g IH); intros ? ?; discriminate|sz|sz]
  | IH : Bl _ |- _ => eapply Bounded_weaken; [apply (proj1 IH)|sz|sz]
  | IH : Bl _ |- _ => eapply Bounded_weaken; [apply (proj1 (proj2 IH))|sz|sz]
  | IH : Bl _ |- _ => eapply Bounded_weaken; [apply (proj2 (proj2 IH))|sz|sz]
  | IH : forall i, Bounded i (i + size_k _) (rc_kwds P i _) |- _ => eapply Bounded_weaken; [apply IH|sz|sz]
  | IH : forall l i seen res, Bounded i (i + size_c _) (rc_cmps P l i _ seen res) |- _ => eapply Bounded_weaken; [apply IH|sz|sz]
  | IH : forall i, Bounded i (i + size_p _) (rc_parts P i _) |- _ => eapply Bounded_weaken; [apply IH|sz|sz]
  | IH : forall i, Bounded i (i + size_d _) (rc_dpairs P i _) |- _ => eapply Bounded_weaken; [apply IH|sz|sz]
  | IH : forall i, Bounded i (i + size_g _) (rc_gens P i _) |- _ => eapply Bounded_weaken; [apply IH|sz|sz]
  end.

Ltac bd :=
  lazymatch goal with
  | |- Bounded _ _ (bindM _ _) => apply Bounded_bind; [bd|intros ?; bd]
  | |- Bounded _ _ (ret _) => apply Bounded_ret
  | |- Bounded _ _ ph => apply Bounded_ret
  | |- Bounded _ _ (fail _) => apply Bounded_fail
  | |- Bounded _ _ (lift _) => apply Bounded_lift
  | |- Bounded _ _ (truthM _ _) => apply Bounded_lift
  | |- Bounded _ _ get_env => apply Bounded_get
  | |- Bounded _ _ (put_env _) => apply Bounded_put
  | |- Bounded _ _ (record _ _) => apply Bounded_record; sz
  | |- Bounded _ _ (speculative _) => apply Bounded_speculative; bd
  | |- Bounded _ _ (mark_targets _) => unfold mark_targets; bd
  | |- Bounded _ _ (match ?x with _ => _ end) => destruct x; bd
  | |- Bounded _ _ (if ?x then _ else _) => destruct x; bd
  | |- _ => use_ih
  end.

Ltac unf := cbn [rc rc_args rc_kwds rc_bool rc_cmps rc_parts rc_dpairs rc_gens rc_ifs size size_l size_k size_c size_p size_d size_g].

Theorem rc_range_all :
  (forall e, Be e) /\ (forall es, Bl es) /\ (forall ks, Bk ks) /\ (forall cs, Bc cs) /\ (forall ps, Bp ps) /\
  (forall ds, Bd ds) /\ (forall gs, Bg gs).
Proof.
  apply expr_mutind; unfold Be, Bk, Bc, Bp, Bd, Bg.
  - (* EConst *) intros v i. unf. bd.
  - (* EName *) intros id i. unf. bd.
  - (* EAttr *) intros e IH a i. unf. bd.
  - (* ESub *) intros a IHa b IHb i. unf. bd.
  - (* ESlice *) intros a IHa b IHb i. unf. bd.
  - (* EOmit *) intros i. unf. bd.
  - (* ECall *) intros f IHf xs IHx ks IHk i. unf.
    apply Bounded_bind; [use_ih|]. intros [fv|]; [|bd].
    destruct (negb (p_callable P fv)); [bd|].
    assert (Hn : Bounded i (i + S (size f + size_l xs + size_k ks)) (call_normal P i f xs ks fv)) by (unfold call_normal; bd).
    destruct xs as [|g [|g2 r]]; try exact Hn.
    destruct g; try exact Hn.
    destruct k; try exact Hn.
    destruct (negb (p_is_all P fv)); [exact Hn|].
    clear Hn. bd.
  - (* EStar *) intros e IH i. unf. bd.
  - (* EUn *) intros o e IH i. unf. bd.
  - (* EBin *) intros o a IHa b IHb i. unf. bd.
  - (* EBool *) intros b es IH i. unf. bd.
  - (* ECmp *) intros l IHl cs IHc i. unf. bd.
  - (* EIf *) intros a IHa b IHb c IHc i. unf. bd.
  - (* ENamed *) intros tg e IH i. unf. bd.
  - (* EFStr *) intros ps IH i. unf. bd.
  - (* EList *) intros es IH i. unf. bd.
  - (* ETuple *) intros es IH i. unf. bd.
  - (* EDict *) intros ds IH i. unf. bd.
  - (* EComp *) intros k a IHa b IHb gs IHg i. unf. bd.
  - (* ENil *) split; [|split]; intros; unf; bd.
  - (* ECons *) intros e IHe r IHr. split; [|split].
    + intros i.
      assert (Plain : (forall e1, e <> EStar e1) ->
                rc_args P i (ECons e r) = (x <- rc P i e ;; rest <- rc_args P (i + size e) r ;; ret (x :: rest))).
      { intro Hn. destruct e; try reflexivity. exfalso. eapply Hn. reflexivity. }
      cbn [size_l].
      destruct e; try (rewrite Plain by (intros ? ?; discriminate); bd).
      (* a starred element *)
      clear Plain. cbn [rc_args]. apply Bounded_bind.
      * change (rc P (S i) e) with (rc P i (EStar e)). use_ih.
      * intros x. bd.
    + intros b i seen. unf. bd.
    + intros i. unf. bd.
  - (* KNil *) intros i. unf. bd.
  - (* KCons *) intros n e IHe r IHr i. unf. bd.
  - (* CNil *) intros l i seen res. unf. bd.
  - (* CCons *) intros o e IHe r IHr l i seen res. unf. bd.
  - (* PNil *) intros i. unf. bd.
  - (* PLit *) intros s r IHr i. unf. bd.
  - (* PFmt *) intros e IHe c r IHr i. unf. bd.
  - (* DNil *) intros i. unf. bd.
  - (* DCons *) intros k IHk v IHv r IHr i. unf. bd.
  - (* DStar *) intros e IHe r IHr i. unf. bd.
  - (* GNil *) intros i. unf. bd.
  - (* GCons *) intros tg tt it IHit ifs IHifs r IHr i. unf. bd.
Qed.
End Range.

(** ** Python's evaluation of a comprehension is [comp_value]; only the record depends on the node number *)
Lemma ev_comp P i k elt elt2 gs (s : gst val) :
  ev P i (EComp k elt elt2 gs) s =
  match comp_value P (EComp k elt elt2 gs) (fst s) with
  | Err x => Err x
  | Ok r => Ok (r, (fst s, snd s ++ match k with KGen => [] | _ => [(i, r)] end))
  end.
Proof.
  destruct s as [m l]. unfold comp_value, run_inner. cbn [ev fst snd].
  unfold bindM, get_env, lift, record, ret, fail. cbn [fst snd].
  destruct gs as [|tg tt it0 ifs rest]; [reflexivity|].
  destruct (run_inner (ev P 0 it0) m) as [x0|e0]; [|reflexivity].
  destruct k.
  - destruct (force _) as [vs|e]; reflexivity.
  - rewrite app_nil_r. reflexivity.
  - destruct (force _) as [kvs|e]; [|reflexivity]. destruct (p_mkdict P kvs) as [d|e]; reflexivity.
Qed.

Lemma down_up m : down (up m) = Some m.
Proof. unfold up. induction m as [|[k v] r IH]; cbn; [reflexivity|]. rewrite IH. reflexivity. Qed.
