(** C10: evaluating contracts terminates whenever the uncontracted program does.

    Hypothesis (the user's side): the *bodies* are ranked - a body only calls targets of smaller
    rank (so the bare program terminates).  Conditions, captures and invariants may call anything,
    any number of times.  Then the nesting depth of calls is bounded by
    [(#keys + 1) * (R + 1)] and the interpreter never runs out of fuel. *)
From Coq Require Import List ZArith Bool Arith Lia.
From ICV Require Import Run RunProofs.
Import ListNotations.

Section Term.
  Variable P : program.
  Variable plan : nat -> option Z.
  Variable rank : target -> nat.
  Variable R : nat.

  Definition script_calls (sc : script) : list target :=
    flat_map (fun a => match a with ACall t => [t] | AAwait _ => [] end) (fst sc).

  Definition valid_target (t : target) : Prop :=
    match t with
    | TFn f => get_fn P f <> None
    | TMeth o m => exists cd, class_of P o = Some cd /\ nth_error (cl_meths cd) m <> None
    | TInit o | TNew o => class_of P o <> None
    end.

  Definition fn_scripts (fd : fn) : list script :=
    List.concat (fn_pre fd) ++ fn_snaps fd ++ fn_post fd ++ [fn_body fd].
  Definition cls_scripts (cd : cls) : list script := cl_invs cd ++ cl_meths cd ++ [cl_init cd].

  (** every call written in the program names an existing function / method / instance *)
  Definition well_formed : Prop :=
    (forall f fd, get_fn P f = Some fd -> forall sc, In sc (fn_scripts fd) ->
                  forall t, In t (script_calls sc) -> valid_target t)
    /\ (forall o cd, class_of P o = Some cd -> forall sc, In sc (cls_scripts cd) ->
                     forall t, In t (script_calls sc) -> valid_target t).

  (** the uncontracted program terminates: bodies only call down the ranking *)
  Definition ranked : Prop :=
    (forall f fd, get_fn P f = Some fd -> forall t, In t (script_calls (fn_body fd)) -> rank t < rank (TFn f))
    /\ (forall o cd m body, class_of P o = Some cd -> nth_error (cl_meths cd) m = Some body ->
                            forall t, In t (script_calls body) -> rank t < rank (TMeth o m))
    /\ (forall o cd, class_of P o = Some cd ->
                     forall t, In t (script_calls (cl_init cd)) -> rank t < rank (TInit o))
    (* nothing is suspended while __new__ and the invariants after it run: creating the instance must outrank
       whatever they call (an invariant that creates an instance of its own class never ends in Python either) *)
    /\ (forall o cd, class_of P o = Some cd -> forall sc, In sc (cl_invs cd ++ [cl_init cd]) ->
                     forall t, In t (script_calls sc) -> rank t < rank (TNew o))
    /\ (forall t, rank t <= R).

  Definition all_keys : list key :=
    map KF (seq 0 (List.length (p_fns P))) ++ map KO (seq 0 (List.length (p_objs P))).

  (** keys whose checking is not suspended *)
  Definition free (s : kset) : nat := List.length (filter (fun k => negb (kmem k s)) all_keys).

  Definition measure (s : kset) (t : target) : nat := free s * (R + 1) + rank t.

  Lemma filter_length_lt {A} (p q : A -> bool) (l : list A) x :
    (forall y, q y = true -> p y = true) -> In x l -> p x = true -> q x = false ->
    List.length (filter q l) < List.length (filter p l).
  Proof.
    intros Hqp. induction l as [|y l IH]; intros Hin Hp Hq; [destruct Hin|].
    assert (List.length (filter q l) <= List.length (filter p l)) as Hle.
    { clear IH Hin. induction l as [|z l IHl]; cbn; auto.
      destruct (q z) eqn:Eq; [rewrite (Hqp _ Eq); cbn; lia | destruct (p z); cbn; lia]. }
    cbn. destruct Hin as [->|Hin].
    - rewrite Hp, Hq. cbn. lia.
    - specialize (IH Hin Hp Hq). destruct (q y) eqn:Eq; [rewrite (Hqp _ Eq); cbn; lia | destruct (p y); cbn; lia].
  Qed.

  Lemma filter_length_le' {A} (p : A -> bool) l : List.length (filter p l) <= List.length l.
  Proof. induction l as [|x l IH]; cbn; auto. destruct (p x); cbn; lia. Qed.

  Lemma key_eqb_eq a b : key_eqb a b = true <-> a = b.
  Proof.
    destruct a, b; cbn; try (split; [discriminate | intros H; discriminate]);
      rewrite Nat.eqb_eq; split; intros H; [subst; reflexivity | injection H; auto | subst; reflexivity | injection H; auto].
  Qed.

  Lemma free_push k s : In k all_keys -> kmem k s = false -> free (k :: s) < free s.
  Proof.
    intros Hin Hm. unfold free. apply filter_length_lt with (x := k); auto.
    - intros y. cbn. destruct (key_eqb k y); cbn; [discriminate | auto].
    - rewrite Hm. reflexivity.
    - cbn. assert (key_eqb k k = true) as -> by (apply key_eqb_eq; reflexivity). reflexivity.
  Qed.

  Lemma fn_key_in f fd : get_fn P f = Some fd -> In (KF f) all_keys.
  Proof.
    intros H. unfold all_keys. apply in_or_app. left. apply in_map. apply in_seq.
    assert (f < List.length (p_fns P)) by (apply nth_error_Some; unfold get_fn in H; congruence). lia.
  Qed.
  Lemma obj_key_in o cd : class_of P o = Some cd -> In (KO o) all_keys.
  Proof.
    intros H. unfold all_keys. apply in_or_app. right. apply in_map. apply in_seq.
    unfold class_of in H. destruct (nth_error (p_objs P) o) eqn:E; [|discriminate].
    assert (o < List.length (p_objs P)) by (apply nth_error_Some; congruence). lia.
  Qed.

  (** no exhaustion of the recursion budget *)
  Definition ok_at {A} (m : prog A) (s : kset) : Prop :=
    forall tr out s', run_seq plan m s = (tr, out, s') -> out <> OExn EFuel.

  Lemma ok_ret {A} (a : A) s : ok_at (Ret a) s.
  Proof. intros tr out s' H. cbn in H. injection H as <- <- <-. discriminate. Qed.
  Lemma ok_raise {A} x s : x <> EFuel -> ok_at (@raise_ A x) s.
  Proof. intros Hx tr out s' H. cbn in H. injection H as <- <- <-. congruence. Qed.

  Lemma ok_pbind {A B} (m : prog A) (f : A -> prog B) s :
    preserves plan m -> ok_at m s -> (forall a, ok_at (f a) s) -> ok_at (pbind m f) s.
  Proof.
    intros Hp Hm Hf tr out s' H. rewrite run_seq_pbind in H.
    destruct (run_seq plan m s) as [[t0 [a|x]] s0] eqn:E.
    - destruct (run_seq plan (f a) s0) as [[t1 r1] s1] eqn:E1. injection H as <- <- <-.
      apply Hp in E. subst s0. eapply Hf; eauto.
    - injection H as <- <- <-. intro Hx. injection Hx as ->. exact (Hm _ _ _ E eq_refl).
  Qed.

  Lemma ok_emit {A} ev (k : prog A) s : ok_at k s -> ok_at (Emit ev k) s.
  Proof.
    intros Hk tr out s' H. cbn in H. destruct (run_seq plan k s) as [[t0 r0] s0] eqn:E.
    injection H as <- <- <-. eapply Hk; eauto.
  Qed.
  Lemma ok_set {A} s0 (k : prog A) s : ok_at k s0 -> ok_at (SetP s0 k) s.
  Proof. intros Hk tr out s' H. cbn in H. eapply Hk; eauto. Qed.
  Lemma ok_finally {A} (m : prog A) saved s : ok_at m s -> ok_at (finally_ m (SetP saved (Ret tt))) s.
  Proof.
    intros Hm tr out s' H. pose proof (run_seq_finally_obs plan m saved s) as Ho. rewrite H in Ho.
    destruct (run_seq plan m s) as [[t1 r1] s1] eqn:E. cbn in Ho. injection Ho as <- <-. eapply Hm; eauto.
  Qed.

  Lemma ok_actions call s acts v :
    (forall t, preserves plan (call t)) ->
    (forall t, In t (script_calls (acts, v)) -> ok_at (call t) s) ->
    ok_at (run_actions call acts v) s.
  Proof.
    intros Hp. induction acts as [|a rest IH]; intros Hc; cbn.
    - destruct v; [apply ok_ret | apply ok_raise; discriminate].
    - destruct a as [t|pt].
      + apply ok_pbind; [apply Hp | apply Hc; cbn; auto|].
        intros _. apply IH. intros t' Ht'. apply Hc. cbn. right. exact Ht'.
      + intros tr out s' H. cbn in H. destruct (plan pt).
        * cbn in H. injection H as <- <- <-. discriminate.
        * eapply IH; eauto.
  Qed.

  Section PresLists.
    Variable run : script -> prog bool.
    Hypothesis Hp : forall sc, preserves plan (run sc).
    Lemma preserves_conj' mk l : forall i, preserves plan (run_conj run mk i l).
    Proof.
      induction l as [|sc rest IH]; intros i; cbn; [apply preserves_ret|].
      apply preserves_emit. apply preserves_pbind; [apply Hp|].
      intros [|]; [apply IH | apply preserves_raise].
    Qed.
    Lemma preserves_all' mk l : forall i, preserves plan (run_all run mk i l).
    Proof.
      induction l as [|sc rest IH]; intros i; cbn; [apply preserves_ret|].
      apply preserves_emit. apply preserves_pbind; [apply Hp | intros _; apply IH].
    Qed.
    Lemma preserves_group' f g l : forall i, preserves plan (run_group run f g i l).
    Proof.
      induction l as [|sc rest IH]; intros i; cbn; [apply preserves_ret|].
      apply preserves_emit. apply preserves_pbind; [apply Hp|].
      intros [|]; [apply IH | apply preserves_ret].
    Qed.
    Lemma preserves_groups' f gs : forall g, preserves plan (run_groups run f g gs).
    Proof.
      induction gs as [|grp rest IH]; intros g; cbn; [apply preserves_ret|].
      apply preserves_pbind; [apply preserves_group'|].
      intros [x|]; [|apply preserves_ret]. destruct rest; [apply preserves_raise | apply IH].
    Qed.
  End PresLists.

  Section Lists.
    Variables (run : script -> prog bool) (s : kset).
    Hypothesis Hp : forall sc, preserves plan (run sc).

    Lemma ok_conj mk l : (forall sc, In sc l -> ok_at (run sc) s) -> forall i, ok_at (run_conj run mk i l) s.
    Proof.
      induction l as [|sc rest IH]; intros Hl i; cbn; [apply ok_ret|].
      apply ok_emit. apply ok_pbind; [apply Hp | apply Hl; cbn; auto|].
      intros [|]; [apply IH; intros sc' Hs; apply Hl; cbn; auto | apply ok_raise; discriminate].
    Qed.
    Lemma ok_all mk l : (forall sc, In sc l -> ok_at (run sc) s) -> forall i, ok_at (run_all run mk i l) s.
    Proof.
      induction l as [|sc rest IH]; intros Hl i; cbn; [apply ok_ret|].
      apply ok_emit. apply ok_pbind; [apply Hp | apply Hl; cbn; auto|].
      intros _. apply IH. intros sc' Hs. apply Hl. cbn. auto.
    Qed.
    Lemma ok_group f g l : (forall sc, In sc l -> ok_at (run sc) s) -> forall i, ok_at (run_group run f g i l) s.
    Proof.
      induction l as [|sc rest IH]; intros Hl i; cbn; [apply ok_ret|].
      apply ok_emit. apply ok_pbind; [apply Hp | apply Hl; cbn; auto|].
      intros [|]; [apply IH; intros sc' Hs; apply Hl; cbn; auto | apply ok_ret].
    Qed.
    Lemma ok_groups f gs :
      (forall grp sc, In grp gs -> In sc grp -> ok_at (run sc) s) -> forall g, ok_at (run_groups run f g gs) s.
    Proof.
      induction gs as [|grp rest IH]; intros Hl g; cbn; [apply ok_ret|].
      apply ok_pbind.
      - assert (forall i, preserves plan (run_group run f g i grp)) as Hg.
        { clear IH Hl. induction grp as [|sc r IHg]; intros i; cbn; [apply preserves_ret|].
          apply preserves_emit. apply preserves_pbind; [apply Hp|]. intros [|]; [apply IHg | apply preserves_ret]. }
        apply Hg.
      - apply ok_group. intros sc Hs. apply (Hl grp sc); cbn; auto.
      - intros [x|]; [|apply ok_ret]. destruct rest as [|g' rest'].
        + apply ok_raise. discriminate.
        + apply IH. intros grp' sc Hg Hs. apply (Hl grp' sc); cbn; auto.
    Qed.
  End Lists.

  Hypothesis Hwf : well_formed.
  Hypothesis Hrk : ranked.

  Lemma rank_le t : rank t <= R.
  Proof. destruct Hrk as (_ & _ & _ & _ & H). apply H. Qed.

  (** a call made while one more key is suspended has a smaller measure, whatever its rank *)
  Lemma measure_push k s t t' : In k all_keys -> kmem k s = false -> measure (k :: s) t' < measure s t.
  Proof.
    intros Hin Hm. unfold measure. pose proof (free_push k s Hin Hm) as Hf. pose proof (rank_le t') as Hr.
    nia.
  Qed.

  Lemma in_concat_scripts {A} (x : A) g (gs : list (list A)) : In g gs -> In x g -> In x (List.concat gs).
  Proof. intros Hg Hx. apply in_concat. exists g. auto. Qed.

  Theorem exec_never_out_of_fuel fuel : forall t s,
    valid_target t -> measure s t < fuel -> ok_at (exec P fuel t) s.
  Proof.
    induction fuel as [|fuel IH]; intros t s Hv Hm; [lia|].
    cbn [exec]. unfold dispatch.
    set (run := run_script (exec P fuel)).
    assert (forall sc, preserves plan (run sc)) as Hp.
    { intros sc. apply preserves_script. apply exec_preserves. }
    (* a script runs fine at s0 if each of its calls is valid and has measure <= fuel - 1 *)
    assert (forall s0 sc, (forall t', In t' (script_calls sc) -> valid_target t' /\ measure s0 t' < fuel) ->
                          ok_at (run sc) s0) as Hscript.
    { intros s0 [acts v] Hc. apply ok_actions; [apply exec_preserves|].
      intros t' Ht'. destruct (Hc t' Ht') as [Hv' Hm']. apply IH; assumption. }
    destruct Hwf as [Hwf_fn Hwf_cls]. destruct Hrk as (Hrk_fn & Hrk_meth & Hrk_init & Hrk_new & _).
    destruct t as [f | o m | o | o].
    - (* function *)
      destruct (get_fn P f) as [fd|] eqn:Ef; [|cbn in Hv; congruence].
      unfold call_fn. intros tr out s' H. cbn [run_seq] in H. revert tr out s' H. fold (ok_at (A:=bool)).
      change (ok_at (if kmem (KF f) s
                     then Emit (EvBare (TFn f)) (Emit (EvSite (SBody f)) (run (fn_body fd)))
                     else SetP (KF f :: s) (finally_ (run_groups run f 0 (fn_pre fd);;;
                             match fn_post fd with [] => Ret tt | _ :: _ => run_all run (SCap f) 0 (fn_snaps fd) end;;;
                             SetP s (Emit (EvSite (SBody f)) (r <- run (fn_body fd);;
                             SetP (KF f :: s) (run_conj run (SPost f) 0 (fn_post fd);;; Ret r))))
                             (SetP s (Ret tt)))) s).
      assert (forall t', In t' (script_calls (fn_body fd)) -> valid_target t' /\ measure s t' < fuel) as Hbody.
      { intros t' Ht'. split.
        - apply (Hwf_fn f fd Ef (fn_body fd)); [unfold fn_scripts; rewrite !in_app_iff; cbn; auto | exact Ht'].
        - pose proof (Hrk_fn f fd Ef t' Ht'). unfold measure in *. lia. }
      destruct (kmem (KF f) s) eqn:Em.
      + apply ok_emit, ok_emit. apply Hscript. exact Hbody.
      + assert (forall sc, In sc (fn_scripts fd) ->
                           forall t', In t' (script_calls sc) -> valid_target t' /\ measure (KF f :: s) t' < fuel) as Hcontract.
        { intros sc Hsc t' Ht'. split; [apply (Hwf_fn f fd Ef sc Hsc t' Ht')|].
          pose proof (measure_push (KF f) s (TFn f) t' (fn_key_in f fd Ef) Em). lia. }
        apply ok_set, ok_finally.
        apply ok_pbind; [apply preserves_groups'; exact Hp | |].
        { apply ok_groups; [exact Hp|]. intros grp sc Hg Hs. apply Hscript. apply Hcontract.
          unfold fn_scripts. apply in_or_app. left. eapply in_concat_scripts; eauto. }
        intros _. apply ok_pbind.
        { destruct (fn_post fd); [apply preserves_ret | apply preserves_all'; exact Hp]. }
        { destruct (fn_post fd) eqn:Epost; [apply ok_ret|]. apply ok_all; [exact Hp|].
          intros sc Hs. apply Hscript. apply Hcontract. unfold fn_scripts. rewrite !in_app_iff. auto. }
        intros _. apply ok_set, ok_emit. apply ok_pbind; [apply Hp | apply Hscript; exact Hbody|].
        intros r. apply ok_set. apply ok_pbind; [apply preserves_conj'; exact Hp | | intros _; apply ok_ret].
        apply ok_conj; [exact Hp|]. intros sc Hs. apply Hscript. apply Hcontract.
        unfold fn_scripts. rewrite !in_app_iff. auto.
    - (* public method *)
      cbn in Hv. destruct Hv as (cd & Ec & Hm0). rewrite Ec.
      destruct (nth_error (cl_meths cd) m) as [mbody|] eqn:Emeth; [|congruence].
      assert (In mbody (cl_meths cd)) as Hinm by (eapply nth_error_In; eauto).
      unfold call_meth. intros tr out s' H. cbn [run_seq] in H. revert tr out s' H. fold (ok_at (A:=bool)).
      change (ok_at (if kmem (KO o) s
                     then Emit (EvBare (TMeth o m)) (Emit (EvSite (SMeth o m)) (run mbody))
                     else SetP (KO o :: s) (finally_ (run_conj run (SInv o) 0 (cl_invs cd);;;
                             Emit (EvSite (SMeth o m)) (r <- run mbody;;
                             run_conj run (SInv o) 0 (cl_invs cd);;; Ret r)) (SetP s (Ret tt)))) s).
      destruct (kmem (KO o) s) eqn:Em.
      + apply ok_emit, ok_emit. apply Hscript. intros t' Ht'. split.
        * apply (Hwf_cls o cd Ec mbody); [unfold cls_scripts; rewrite !in_app_iff; auto | exact Ht'].
        * pose proof (Hrk_meth o cd m mbody Ec Emeth t' Ht'). unfold measure in *. lia.
      + assert (forall sc, In sc (cls_scripts cd) ->
                           forall t', In t' (script_calls sc) -> valid_target t' /\ measure (KO o :: s) t' < fuel) as Hcontract.
        { intros sc Hsc t' Ht'. split; [apply (Hwf_cls o cd Ec sc Hsc t' Ht')|].
          pose proof (measure_push (KO o) s (TMeth o m) t' (obj_key_in o cd Ec) Em). lia. }
        apply ok_set, ok_finally.
        apply ok_pbind; [apply preserves_conj'; exact Hp | |].
        { apply ok_conj; [exact Hp|]. intros sc Hs. apply Hscript. apply Hcontract.
          unfold cls_scripts. rewrite !in_app_iff. auto. }
        intros _. apply ok_emit. apply ok_pbind; [apply Hp | |].
        { apply Hscript. apply Hcontract. unfold cls_scripts. rewrite !in_app_iff. auto. }
        intros r. apply ok_pbind; [apply preserves_conj'; exact Hp | | intros _; apply ok_ret].
        apply ok_conj; [exact Hp|]. intros sc Hs. apply Hscript. apply Hcontract.
        unfold cls_scripts. rewrite !in_app_iff. auto.
    - (* constructor *)
      cbn in Hv. destruct (class_of P o) as [cd|] eqn:Ec; [|congruence].
      unfold call_init. intros tr out s' H. cbn [run_seq] in H. revert tr out s' H. fold (ok_at (A:=bool)).
      change (ok_at (if kmem (KO o) s
                     then Emit (EvBare (TInit o)) (Emit (EvSite (SInitBody o)) (run (cl_init cd)))
                     else SetP (KO o :: s) (finally_ (Emit (EvSite (SInitBody o)) (r <- run (cl_init cd);;
                             run_conj run (SInv o) 0 (cl_invs cd);;; Ret r)) (SetP s (Ret tt)))) s).
      destruct (kmem (KO o) s) eqn:Em.
      + apply ok_emit, ok_emit. apply Hscript. intros t' Ht'. split.
        * apply (Hwf_cls o cd Ec (cl_init cd)); [unfold cls_scripts; rewrite !in_app_iff; cbn; auto | exact Ht'].
        * pose proof (Hrk_init o cd Ec t' Ht'). unfold measure in *. lia.
      + assert (forall sc, In sc (cls_scripts cd) ->
                           forall t', In t' (script_calls sc) -> valid_target t' /\ measure (KO o :: s) t' < fuel) as Hcontract.
        { intros sc Hsc t' Ht'. split; [apply (Hwf_cls o cd Ec sc Hsc t' Ht')|].
          pose proof (measure_push (KO o) s (TInit o) t' (obj_key_in o cd Ec) Em). lia. }
        apply ok_set, ok_finally. apply ok_emit. apply ok_pbind; [apply Hp | |].
        { apply Hscript. apply Hcontract. unfold cls_scripts. rewrite !in_app_iff. cbn. auto. }
        intros r. apply ok_pbind; [apply preserves_conj'; exact Hp | | intros _; apply ok_ret].
        apply ok_conj; [exact Hp|]. intros sc Hs. apply Hscript. apply Hcontract.
        unfold cls_scripts. rewrite !in_app_iff. auto.
    - (* creation through __new__ *)
      cbn in Hv. destruct (class_of P o) as [cd|] eqn:Ec; [|congruence].
      assert (forall sc, In sc (cl_invs cd ++ [cl_init cd]) ->
                         forall t', In t' (script_calls sc) -> valid_target t' /\ measure s t' < fuel) as Hcalls.
      { intros sc Hsc t' Ht'. split.
        - apply (Hwf_cls o cd Ec sc); [|exact Ht']. unfold cls_scripts. rewrite !in_app_iff in *. cbn in *. tauto.
        - pose proof (Hrk_new o cd Ec sc Hsc t' Ht'). unfold measure in *. lia. }
      unfold call_new. apply ok_emit. apply ok_pbind; [apply Hp | |].
      { apply Hscript. apply Hcalls. rewrite in_app_iff. cbn. auto. }
      intros r. apply ok_pbind; [apply preserves_conj'; exact Hp | | intros _; apply ok_ret].
      apply ok_conj; [exact Hp|]. intros sc Hs. apply Hscript. apply Hcalls. rewrite in_app_iff. auto.
  Qed.

  (** the bound in closed form: fuel (= nesting depth) [(#keys + 1) * (R + 1)] always suffices *)
  Corollary depth_bound t s :
    valid_target t -> ok_at (exec P ((List.length all_keys + 1) * (R + 1)) t) s.
  Proof.
    intros Hv. apply exec_never_out_of_fuel; [exact Hv|].
    unfold measure. pose proof (rank_le t).
    assert (free s <= List.length all_keys) by (unfold free; apply filter_length_le'). nia.
  Qed.
End Term.
