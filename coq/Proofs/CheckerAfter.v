(** C16/C03, for the model and every case: a call that returns normally after its body ran has evaluated every
    invariant that applies after the body, each once and in the order of the list, whatever the parameters of its
    condition - and nothing else in the role of an invariant: [spec_C16_after c (run_case c) = true]. *)
From Coq Require Import List String ZArith Bool Lia.
From ICV Require Import Base Bind Checker CheckerCase CheckerSpec CheckerOracle CheckerFrame CheckerProps.
Import ListNotations.
Open Scope string_scope.
Open Scope list_scope.

Definition inv_id (e : event) : list Z := match e with EvCond RInv k _ _ => [k] | _ => [] end.
Definition inv_ids (t : list event) : list Z := flat_map inv_id t.

Lemma inv_ids_app t1 t2 : inv_ids (t1 ++ t2) = inv_ids t1 ++ inv_ids t2.
Proof. apply flat_map_app. Qed.

Lemma after_body_here env st rest : inv_ids_after_body (EvBody env st :: rest) = inv_ids rest.
Proof. reflexivity. Qed.

Lemma after_body_skip t1 t2 : existsb is_body t1 = false -> inv_ids_after_body (t1 ++ t2) = inv_ids_after_body t2.
Proof.
  induction t1 as [|e t1 IH]; intro H; [reflexivity|].
  cbn [existsb] in H. apply orb_false_iff in H as [He Hr].
  destruct e; cbn in He; try discriminate; cbn [app]; apply (IH Hr).
Qed.

Lemma only_no_inv_ids (P : event -> bool) t :
  (forall e, P e = true -> inv_id e = []) -> only P t -> inv_ids t = [].
Proof.
  intros HP Ho. induction Ho as [|e t He _ IH]; [reflexivity|].
  unfold inv_ids in *. cbn [flat_map]. rewrite (HP e He), IH. reflexivity.
Qed.

Lemma post_event_no_inv e : post_event e = true -> inv_id e = [].
Proof. destruct e as [r k kw st| | |]; cbn; try reflexivity. destruct r; cbn; intro H; try discriminate; reflexivity. Qed.

Lemma zlist_eqb_refl l : zlist_eqb l l = true.
Proof. induction l as [|x l IH]; [reflexivity|]. cbn. rewrite Z.eqb_refl. exact IH. Qed.

(** what a trace looks like around its body: no body at all, or one body followed by nothing in the role of an invariant *)
Definition Inner (t : list event) : Prop :=
  existsb is_body t = false
  \/ exists ta env stb tq, t = ta ++ EvBody env stb :: tq /\ existsb is_body ta = false /\ inv_ids tq = [] /\ existsb is_body tq = false.

Lemma around_inner t1 t2 t3 :
  existsb is_body t1 = false -> Inner t2 -> existsb is_body t3 = false ->
  existsb is_body (t1 ++ t2 ++ t3) = true -> inv_ids_after_body (t1 ++ t2 ++ t3) = inv_ids t3.
Proof.
  intros H1 [H2|(ta & env & stb & tq & -> & Ha & Hq & _)] H3 Hb.
  - rewrite !existsb_app, H1, H2, H3 in Hb. discriminate.
  - rewrite (after_body_skip _ _ H1). rewrite <- app_assoc. rewrite (after_body_skip _ _ Ha).
    cbn [app]. rewrite after_body_here, inv_ids_app, Hq. reflexivity.
Qed.

Lemma eval_invariant_trace (U : user) (self : pv) i st t b st' :
  eval_invariant U i self st = (t, inl b, st') -> t = [EvCond RInv (cid i) (inv_kwargs i self) st].
Proof.
  unfold eval_invariant, bindM, emit, throw, ret. intros H. cbn in H.
  destruct (u_cond U (cid i) (inv_kwargs i self) st); cbn in H; inversion H; reflexivity.
Qed.

Lemma invariants_all_evaluated (U : user) (self : pv) invs : forall st t st',
  check_invariants U invs self st = (t, inl tt, st') -> inv_ids t = map cid invs /\ existsb is_body t = false.
Proof.
  induction invs as [|i rest IH]; intros st t st' H.
  - cbn in H. unfold ret in H. injection H as <- <-. split; reflexivity.
  - cbn [check_invariants] in H.
    apply bindM_inv in H as [(t1 & b & st1 & t2 & E1 & E2 & ->) | (x & _ & Hx)]; [|discriminate].
    pose proof (eval_invariant_trace _ _ _ _ _ _ _ E1) as ->.
    destruct b.
    + apply IH in E2 as [Hi Hb]. cbn [app]. split.
      * unfold inv_ids in *. cbn [flat_map inv_id app map]. rewrite Hi. reflexivity.
      * cbn [existsb is_body orb]. exact Hb.
    + apply bindM_inv in E2 as [(t3 & x & st3 & t4 & _ & E4 & _) | (x & _ & Hx)]; [|discriminate].
      unfold throw in E4. discriminate.
Qed.

Section After.
Variable c : ccase.
Let U := case_user c.
Let self := hd PNone (k_args c).

Lemma inner_body_raw st t r st' :
  run_body U (k_sig c) (k_args c) (k_kwargs c) st = (t, r, st') -> Inner t.
Proof.
  unfold run_body. destruct (pybind (k_sig c) (k_args c) (k_kwargs c)) as [env|].
  - destruct (u_body U (k_args c) (k_kwargs c) st) as [[v|e] stb]; intros H; injection H as <- <- <-;
      right; exists [], env, st, []; repeat split; reflexivity.
  - intros H; injection H as <- <- <-. left. reflexivity.
Qed.

Lemma inner_checker st t r st' :
  checker_call (k_mode c) U (k_sig c) (eff_pre (k_levels c)) (eff_snaps (k_levels c)) (eff_post (k_levels c))
               (k_args c) (k_kwargs c) st = (t, r, st') -> Inner t.
Proof.
  intro H. apply trace_phases in H as (tp & tc & tb & tq & -> & Hp & Hc & Hb & Hq & _ & _ & Hbq).
  assert (Np : existsb is_body tp = false) by (eapply only_existsb_false; [apply pre_event_not_body|exact Hp]).
  assert (Nc : existsb is_body tc = false) by (eapply only_existsb_false; [apply capture_not_body|exact Hc]).
  assert (Nq : existsb is_body tq = false) by (eapply only_existsb_false; [apply post_event_not_body|exact Hq]).
  destruct Hb as [->|(env & ->)].
  - left. rewrite (Hbq eq_refl). rewrite !existsb_app, Np, Nc. reflexivity.
  - right. exists (tp ++ tc), env, st, tq. repeat split.
    + rewrite app_assoc. reflexivity.
    + rewrite existsb_app, Np, Nc. reflexivity.
    + exact (only_no_inv_ids _ _ post_event_no_inv Hq).
    + exact Nq.
Qed.

Definition inner_M : M pv :=
  if is_nil (eff_pre (k_levels c)) && is_nil (eff_post (k_levels c))
  then run_body U (k_sig c) (k_args c) (k_kwargs c)
  else checker_call (k_mode c) U (k_sig c) (eff_pre (k_levels c)) (eff_snaps (k_levels c))
                    (eff_post (k_levels c)) (k_args c) (k_kwargs c).

Lemma inner_M_Inner st t r st' : inner_M st = (t, r, st') -> Inner t.
Proof. unfold inner_M. destruct (_ && _); [apply inner_body_raw | apply inner_checker]. Qed.

Lemma Inner_after t : Inner t -> existsb is_body t = true -> inv_ids_after_body t = [].
Proof.
  intros Hi Hb. pose proof (around_inner [] t [] eq_refl Hi eq_refl) as H.
  cbn [app] in H. rewrite app_nil_r in H. exact (H Hb).
Qed.

Lemma method_after invs st t v st' :
  method_call U invs self inner_M st = (t, inl v, st') ->
  existsb is_body t = true -> inv_ids_after_body t = map cid invs.
Proof.
  intros H Hb. apply method_call_graph in H as [(x & _ & Hx & _) | (t1 & t2 & r2 & st2 & E1 & E2 & _ & Hr)]; [discriminate|].
  destruct Hr as [(x & _ & _ & Hx) | (v' & t3 & r3 & -> & E3 & -> & Hr)]; [discriminate|].
  destruct r3 as [[]|x]; [|discriminate].
  apply invariants_all_evaluated in E1 as [_ N1]. apply invariants_all_evaluated in E3 as [I3 N3].
  rewrite (around_inner _ _ _ N1 (inner_M_Inner _ _ _ _ E2) N3 Hb). exact I3.
Qed.

Lemma init_after invs st t v st' :
  init_call U invs self inner_M st = (t, inl v, st') ->
  existsb is_body t = true -> inv_ids_after_body t = map cid invs.
Proof.
  intros H Hb. apply init_call_graph in H as (t2 & r2 & st2 & E2 & _ & Hr).
  destruct Hr as [(x & _ & _ & Hx) | (v' & t3 & r3 & -> & E3 & -> & Hr)]; [discriminate|].
  destruct r3 as [[]|x]; [|discriminate].
  apply invariants_all_evaluated in E3 as [I3 N3].
  pose proof (around_inner [] _ _ eq_refl (inner_M_Inner _ _ _ _ E2) N3) as H. cbn [app] in H.
  rewrite (H Hb). exact I3.
Qed.

Theorem after_sound : spec_C16_after c (fst (run_case c)) (snd (run_case c)) = true.
Proof.
  unfold run_case, run_M. destruct (case_M c (k_store c)) as [[t r] st'] eqn:E. cbn [fst snd].
  destruct r as [v|x].
  2:{ destruct (k_kind c); reflexivity. }
  assert (G : existsb is_body t = true -> inv_ids_after_body t = map cid (invs_after c)).
  { intro Hb. unfold case_M in E. fold U in E. fold self in E. fold inner_M in E. unfold invs_after.
    destruct (k_invs c) as [invs|] eqn:Ei; destruct (k_kind c) eqn:Ek;
      first [ exact (method_after _ _ _ _ _ E Hb)
            | exact (init_after _ _ _ _ _ E Hb)
            | exact (Inner_after _ (inner_M_Inner _ _ _ _ E) Hb) ]. }
  assert (S : forall w, spec_C16_after c t (inl w) = true).
  { intro w. unfold spec_C16_after. destruct (existsb is_body t) eqn:Hb; [|reflexivity].
    rewrite (G eq_refl). apply zlist_eqb_refl. }
  destruct (k_kind c); apply S.
Qed.

(** ** a normal return is the body's: the body ran, and what the caller receives is what it returned *)
Lemma checker_return_has_body m0 U0 s0 pre0 snaps0 post0 args0 kwargs0 st t v st' :
  checker_call m0 U0 s0 pre0 snaps0 post0 args0 kwargs0 st = (t, inl v, st') -> existsb is_body t = true.
Proof.
  intro H. apply checker_call_graph in H.
  inversion H as [Hr | Hr Hc | tp x Hr Hc E | tp x Hr Hc E | tp tc x Hr Hc E Hcap Ecap
                  | tp tc old tb r0 st0 Hr Hc E Hcap Hbx]; subst; try discriminate.
  inversion Hbx as [old0 Hb | old0 env e stb Hb Hu | old0 env v0 stb Hb Hu Hpost
                    | old0 env v0 stb tq w Hb Hu Hpost Eq]; subst; try discriminate;
    rewrite !existsb_app; cbn [existsb is_body]; rewrite ?orb_true_r; reflexivity.
Qed.

Lemma inner_M_return st t v st' :
  inner_M st = (t, inl v, st') ->
  existsb is_body t = true /\ exists stb, u_body U (k_args c) (k_kwargs c) st = (BRet v, stb).
Proof.
  unfold inner_M. destruct (_ && _).
  - unfold run_body. destruct (pybind (k_sig c) (k_args c) (k_kwargs c)) as [env|]; [|discriminate].
    destruct (u_body U (k_args c) (k_kwargs c) st) as [[v0|e] stb] eqn:Eu; intro H; inversion H; subst.
    split; [reflexivity|]. eexists. reflexivity.
  - intro H. split; [exact (checker_return_has_body _ _ _ _ _ _ _ _ _ _ _ _ H)|].
    destruct (return_means_posts_hold _ _ _ _ _ _ _ _ _ _ _ _ v H eq_refl) as (old & stb & Hu & _).
    exists stb. exact Hu.
Qed.

Theorem return_is_the_bodys w :
  snd (run_case c) = inl w ->
  existsb is_body (fst (run_case c)) = true
  /\ exists v stb, u_body U (k_args c) (k_kwargs c) (k_store c) = (BRet v, stb) /\ w = adjust c v.
Proof.
  unfold run_case, run_M. destruct (case_M c (k_store c)) as [[t r] st'] eqn:E. cbn [fst snd].
  destruct r as [v|x]; [|destruct (k_kind c); discriminate].
  assert (G : existsb is_body t = true /\ exists stb, u_body U (k_args c) (k_kwargs c) (k_store c) = (BRet v, stb)).
  { unfold case_M in E. fold U in E. fold self in E. fold inner_M in E.
    assert (M : forall invs, method_call U invs self inner_M (k_store c) = (t, inl v, st') ->
                existsb is_body t = true /\ exists stb, u_body U (k_args c) (k_kwargs c) (k_store c) = (BRet v, stb)).
    { intros invs H. apply method_call_graph in H as [(x & _ & Hx & _) | (t1 & t2 & r2 & st2 & _ & E2 & _ & Hr)]; [discriminate|].
      destruct Hr as [(x & _ & _ & Hx) | (v' & t3 & r3 & -> & _ & -> & Hr)]; [discriminate|].
      destruct r3 as [u|x]; [|discriminate]. injection Hr as <-.
      apply inner_M_return in E2 as [Hb Hu]. split; [|exact Hu].
      rewrite !existsb_app, Hb, orb_true_r. reflexivity. }
    assert (I : forall invs, init_call U invs self inner_M (k_store c) = (t, inl v, st') ->
                existsb is_body t = true /\ exists stb, u_body U (k_args c) (k_kwargs c) (k_store c) = (BRet v, stb)).
    { intros invs H. apply init_call_graph in H as (t2 & r2 & st2 & E2 & _ & Hr).
      destruct Hr as [(x & _ & _ & Hx) | (v' & t3 & r3 & -> & _ & -> & Hr)]; [discriminate|].
      destruct r3 as [u|x]; [|discriminate]. injection Hr as <-.
      apply inner_M_return in E2 as [Hb Hu]. split; [|exact Hu].
      rewrite existsb_app, Hb. reflexivity. }
    destruct (k_invs c) as [invs|]; destruct (k_kind c);
      first [ exact (M _ E) | exact (I _ E) | exact (inner_M_return _ _ _ _ E) ]. }
  destruct G as [Hb (stb & Hu)]. intro Hw. split; [exact Hb|]. exists v, stb. split; [exact Hu|].
  unfold adjust. fold self. destruct (k_kind c); injection Hw as <-; reflexivity.
Qed.

(** ** reserved names at the call: [spec_C19_call] of the model's observation *)
Lemma guard_throws m0 U0 s0 pre0 snaps0 post0 args0 kwargs0 st :
  reserved_kw kwargs0 || clashing_names s0 post0 args0 kwargs0 = true ->
  checker_call m0 U0 s0 pre0 snaps0 post0 args0 kwargs0 st = ([], inr (XLib "TypeError" None), st).
Proof.
  unfold checker_call, reserved_kw, clashing_names. intro H.
  destruct (dict_has kwargs0 "_ARGS" || dict_has kwargs0 "_KWARGS"); [reflexivity|].
  cbn [orb] in H. rewrite H. reflexivity.
Qed.

Lemma invariants_pass invs : forall st,
  invs_hold_ c invs st = true -> exists t, check_invariants U invs self st = (t, inl tt, st).
Proof.
  induction invs as [|i rest IH]; intros st H.
  - exists []. reflexivity.
  - unfold invs_hold_ in H. cbn [forallb] in H. apply andb_true_iff in H as [Hi Hr].
    destruct (IH st Hr) as (t2 & E2).
    unfold inv_holds_, inv_val_ in Hi. fold U in Hi. fold self in Hi.
    destruct (eval_invariant U i self st) as [[t1 r1] st1] eqn:E1. cbn [fst snd] in Hi.
    destruct r1 as [[|]|x]; try discriminate.
    pose proof (eval_invariant_frame U self _ _ _ _ _ E1) as [-> _].
    exists (t1 ++ t2). cbn [check_invariants]. unfold bindM at 1. rewrite E1, E2. reflexivity.
Qed.

Lemma guarded_case t r st' :
  has_checker c = true ->
  reserved_kw (k_kwargs c) || clashing_names (k_sig c) (eff_post (k_levels c)) (k_args c) (k_kwargs c) = true ->
  invs_hold_ c (invs_before c) (k_store c) = true ->
  case_M c (k_store c) = (t, r, st') ->
  r = inr (XLib "TypeError" None) /\ existsb is_body t = false.
Proof.
  intros Hc Hg Hi E. unfold case_M in E. fold U in E. fold self in E. fold inner_M in E.
  assert (T : inner_M (k_store c) = ([], inr (XLib "TypeError" None), k_store c)).
  { unfold inner_M. unfold has_checker in Hc. apply negb_true_iff in Hc. rewrite Hc. apply guard_throws. exact Hg. }
  assert (M : method_call U (around_invs c) self inner_M (k_store c) = (t, r, st') ->
              r = inr (XLib "TypeError" None) /\ existsb is_body t = false).
  { intro H. destruct (invariants_pass _ _ Hi) as (t0 & E0). unfold invs_before in E0.
    apply method_call_graph in H as [(x & Ex & _) | (t1 & t2 & r2 & st2 & E1 & E2 & _ & Hr)].
    { rewrite E0 in Ex. discriminate. }
    rewrite T in E2. injection E2 as <- <- <-.
    destruct Hr as [(x & Hx & -> & ->) | (v' & t3 & r3 & Hx & _)]; [|discriminate].
    injection Hx as <-. split; [reflexivity|].
    rewrite app_nil_r. apply invariants_all_evaluated in E1 as [_ N1]. exact N1. }
  assert (I : forall invs, init_call U invs self inner_M (k_store c) = (t, r, st') ->
              r = inr (XLib "TypeError" None) /\ existsb is_body t = false).
  { intros invs H. apply init_call_graph in H as (t2 & r2 & st2 & E2 & _ & Hr).
    rewrite T in E2. injection E2 as <- <- <-.
    destruct Hr as [(x & Hx & -> & ->) | (v' & t3 & r3 & Hx & _)]; [|discriminate].
    injection Hx as <-. split; reflexivity. }
  assert (P : inner_M (k_store c) = (t, r, st') -> r = inr (XLib "TypeError" None) /\ existsb is_body t = false).
  { intro H. rewrite T in H. injection H as <- <- <-. split; reflexivity. }
  destruct (k_invs c) as [invs|]; destruct (k_kind c); first [ exact (M E) | exact (I _ E) | exact (P E) ].
Qed.

Theorem call_guard_sound : spec_C19_call c (fst (run_case c)) (snd (run_case c)) = true.
Proof.
  unfold spec_C19_call.
  destruct (has_checker c) eqn:Hc; [|reflexivity].
  destruct (reserved_kw (k_kwargs c) || clashing_names (k_sig c) (eff_post (k_levels c)) (k_args c) (k_kwargs c)) eqn:Hg;
    [|reflexivity].
  cbn [andb].
  destruct (forallb _ (invs_before c)); [|reflexivity]. cbn [andb].
  destruct (invs_hold_ c (invs_before c) (k_store c)) eqn:Hi; [|reflexivity].
  unfold run_case, run_M. destruct (case_M c (k_store c)) as [[t r] st'] eqn:E. cbn [fst snd].
  destruct (guarded_case _ _ _ Hc Hg Hi E) as [-> Hb]. rewrite Hb.
  destruct (k_kind c); reflexivity.
Qed.

(** ** the phases of a whole call, invariants included: [phases_ok] of the model's observation *)
Lemma phases_weaken t : forall cur cur' seen, cur <= cur' -> phases_ok cur' seen t = true -> phases_ok cur seen t = true.
Proof.
  induction t as [|e t IH]; intros cur cur' seen Hle H; [reflexivity|].
  cbn [phases_ok] in *. destruct (phase_of seen e) as [p|]; [|exact (IH _ _ _ Hle H)].
  apply andb_true_iff in H as [H1 H3]. apply andb_true_iff in H1 as [H1 H2].
  apply Nat.leb_le in H1. rewrite H2, H3. assert (Hc : Nat.leb cur p = true) by (apply Nat.leb_le; lia).
  rewrite Hc. reflexivity.
Qed.

(** a stretch of events that all belong to phase [p] (or to none: error factories), [p] not the body's *)
Lemma phases_segment p seen t rest : forall cur,
  cur <= p -> p <> 3 ->
  Forall (fun e => phase_of seen e = None \/ phase_of seen e = Some p) t ->
  phases_ok p seen rest = true -> phases_ok cur seen (t ++ rest) = true.
Proof.
  induction t as [|e t IH]; intros cur Hle Hp Hall Hrest.
  - cbn [app]. exact (phases_weaken _ _ _ _ Hle Hrest).
  - inversion Hall as [|? ? He Ht]; subst. cbn [app phases_ok].
    destruct He as [-> | ->].
    + exact (IH _ Hle Hp Ht Hrest).
    + assert (Hc : Nat.leb cur p = true) by (apply Nat.leb_le; exact Hle). rewrite Hc.
      assert (H3 : Nat.eqb p 3 = false) by (apply Nat.eqb_neq; exact Hp). rewrite H3.
      cbn [andb orb]. rewrite orb_false_r. exact (IH _ (le_n _) Hp Ht Hrest).
Qed.

Lemma only_phase (P : event -> bool) seen p t :
  (forall e, P e = true -> phase_of seen e = None \/ phase_of seen e = Some p) ->
  only P t -> Forall (fun e => phase_of seen e = None \/ phase_of seen e = Some p) t.
Proof. intros HP Ho. induction Ho as [|e t He _ IH]; constructor; [exact (HP e He)|exact IH]. Qed.

Lemma inv_phase seen e : inv_event e = true -> phase_of seen e = None \/ phase_of seen e = Some (if seen then 5 else 0).
Proof. destruct e as [r k kw st| | |]; cbn; try discriminate; [|left; reflexivity]. destruct r; cbn; try discriminate. right. reflexivity. Qed.
Lemma pre_phase seen e : pre_event e = true -> phase_of seen e = None \/ phase_of seen e = Some 1.
Proof. destruct e as [r k kw st| | |]; cbn; try discriminate; [|left; reflexivity]. destruct r; cbn; try discriminate. right. reflexivity. Qed.
Lemma post_phase seen e : post_event e = true -> phase_of seen e = None \/ phase_of seen e = Some 4.
Proof. destruct e as [r k kw st| | |]; cbn; try discriminate; [|left; reflexivity]. destruct r; cbn; try discriminate. right. reflexivity. Qed.
Lemma capture_phase seen e : is_capture e = true -> phase_of seen e = None \/ phase_of seen e = Some 2.
Proof. destruct e; cbn; try discriminate. right. reflexivity. Qed.

(** the inner call (bare body or checker), followed by whatever is in order after a body (phase 5 events), or by nothing *)
Lemma inner_phases st t r st' rest cur :
  inner_M st = (t, r, st') -> cur <= 1 ->
  (existsb is_body t = true -> phases_ok 4 true rest = true) ->
  (existsb is_body t = false -> rest = []) ->
  phases_ok cur false (t ++ rest) = true.
Proof.
  unfold inner_M. destruct (_ && _).
  - unfold run_body. destruct (pybind (k_sig c) (k_args c) (k_kwargs c)) as [env|].
    + destruct (u_body U (k_args c) (k_kwargs c) st) as [[v|e] stb]; intros H Hle Hb _; injection H as <- <- <-;
        cbn [app phases_ok phase_of]; (assert (Hc : Nat.leb cur 3 = true) by (apply Nat.leb_le; lia)); rewrite Hc;
        cbn; exact (phases_weaken _ _ _ _ (le_S _ _ (le_n _)) (Hb eq_refl)).
    + intros H _ _ Hn. injection H as <- <- <-. rewrite (Hn eq_refl). reflexivity.
  - intros H Hle Hb Hn. apply trace_phases in H as (tp & tc & tb & tq & -> & Hp & Hc & Hbody & Hq & _ & _ & Hbq).
    assert (Np : existsb is_body tp = false) by (eapply only_existsb_false; [apply pre_event_not_body|exact Hp]).
    assert (Nc : existsb is_body tc = false) by (eapply only_existsb_false; [apply capture_not_body|exact Hc]).
    rewrite <- !app_assoc.
    apply (phases_segment 1 false tp); [exact Hle|discriminate|exact (only_phase _ _ _ _ (pre_phase false) Hp)|].
    apply (phases_segment 2 false tc); [lia|discriminate|exact (only_phase _ _ _ _ (capture_phase false) Hc)|].
    destruct Hbody as [->|(env & ->)].
    + rewrite (Hbq eq_refl). cbn [app].
      rewrite Hn; [reflexivity|]. rewrite (Hbq eq_refl), !existsb_app, Np, Nc. reflexivity.
    + cbn [app phases_ok phase_of]. cbn.
      apply (phases_segment 4 true tq); [lia|discriminate|exact (only_phase _ _ _ _ (post_phase true) Hq)|].
      apply Hb. rewrite !existsb_app. cbn. rewrite !orb_true_r. reflexivity.
Qed.

Lemma invariants_phase5 invs st t r st' : check_invariants U invs self st = (t, r, st') -> phases_ok 4 true t = true.
Proof.
  intro H. apply check_invariants_spec in H as (_ & Ho & _).
  rewrite <- (app_nil_r t). apply (phases_segment 5 true t); [lia|discriminate| |reflexivity].
  exact (only_phase _ _ _ _ (inv_phase true) Ho).
Qed.

Theorem phases_sound : phases_ok 0 false (fst (run_case c)) = true.
Proof.
  unfold run_case, run_M. destruct (case_M c (k_store c)) as [[t r] st'] eqn:E. cbn [fst].
  unfold case_M in E. fold U in E. fold self in E. fold inner_M in E.
  assert (P : inner_M (k_store c) = (t, r, st') -> phases_ok 0 false t = true).
  { intro H. rewrite <- (app_nil_r t). apply (inner_phases _ _ _ _ _ _ H); [lia|reflexivity|reflexivity]. }
  assert (M : forall invs, method_call U invs self inner_M (k_store c) = (t, r, st') -> phases_ok 0 false t = true).
  { intros invs H. apply method_call_graph in H as [(x & Ex & _) | (t1 & t2 & r2 & st2 & E1 & E2 & _ & Hr)].
    - apply check_invariants_spec in Ex as (_ & Ho & _). rewrite <- (app_nil_r t).
      apply (phases_segment 0 false t); [lia|discriminate|exact (only_phase _ _ _ _ (inv_phase false) Ho)|reflexivity].
    - apply check_invariants_spec in E1 as (_ & Ho1 & _).
      destruct Hr as [(x & -> & -> & _) | (v' & t3 & r3 & -> & E3 & -> & _)].
      + apply (phases_segment 0 false t1); [lia|discriminate|exact (only_phase _ _ _ _ (inv_phase false) Ho1)|].
        rewrite <- (app_nil_r t2). apply (inner_phases _ _ _ _ _ _ E2); [lia|reflexivity|reflexivity].
      + apply (phases_segment 0 false t1); [lia|discriminate|exact (only_phase _ _ _ _ (inv_phase false) Ho1)|].
        apply (inner_phases _ _ _ _ _ _ E2); [lia|intros _; exact (invariants_phase5 _ _ _ _ _ E3)|].
        intro Hn. apply inner_M_return in E2 as [Hb _]. rewrite Hb in Hn. discriminate. }
  assert (I : forall invs, init_call U invs self inner_M (k_store c) = (t, r, st') -> phases_ok 0 false t = true).
  { intros invs H. apply init_call_graph in H as (t2 & r2 & st2 & E2 & _ & Hr).
    destruct Hr as [(x & -> & -> & _) | (v' & t3 & r3 & -> & E3 & -> & _)].
    - rewrite <- (app_nil_r t2). apply (inner_phases _ _ _ _ _ _ E2); [lia|reflexivity|reflexivity].
    - apply (inner_phases _ _ _ _ _ _ E2); [lia|intros _; exact (invariants_phase5 _ _ _ _ _ E3)|].
      intro Hn. apply inner_M_return in E2 as [Hb _]. rewrite Hb in Hn. discriminate. }
  destruct (k_invs c) as [invs|]; destruct (k_kind c); first [ exact (M _ E) | exact (I _ E) | exact (P E) ].
Qed.

End After.

(** the statement is not empty: a method of a class with two invariants, the second one without parameters; the
    body runs and returns, and both are evaluated after it, in order *)
Definition ex_after_case : ccase :=
  {| k_kind := KMethod; k_mode := Sync;
     k_sig := {| posonly := []; poskw := [{| pname := "self"; pdefault := None |}]; varpos := None; kwonly := []; varkw := None |};
     k_levels := [];
     k_invs := Some [{| cid := 1; cargs := ["self"]; cmandatory := ["self"]; ckind_ := CKPlain; cerror := ENone; clambda := false |};
                     {| cid := 2; cargs := []; cmandatory := []; ckind_ := CKPlain; cerror := ENone; clambda := false |}];
     k_invs_all := []; k_invs_set := []; k_args := [PObj 1]; k_kwargs := [];
     k_tables := {| t_cond := []; t_capture := []; t_error := []; t_body := BRet PNone; t_mutate := [] |};
     k_store := [] |}.
Lemma after_nonvacuous :
  snd (run_case ex_after_case) = inl PNone
  /\ existsb is_body (fst (run_case ex_after_case)) = true
  /\ inv_ids_after_body (fst (run_case ex_after_case)) = [1; 2]%Z
  /\ List.length (fst (run_case ex_after_case)) = 5%nat.
Proof. repeat split; vm_compute; reflexivity. Qed.

(** the guard is not empty: a method of a class with an invariant, a precondition on it, called with a keyword [_ARGS]:
    the invariant is evaluated (and holds), then TypeError, no body *)
Definition ex_guard_case : ccase :=
  {| k_kind := KMethod; k_mode := Sync;
     k_sig := {| posonly := []; poskw := [{| pname := "self"; pdefault := None |}]; varpos := None; kwonly := [];
                 varkw := Some "kw" |};
     k_levels := [{| l_pre := [{| cid := 3; cargs := ["self"]; cmandatory := ["self"]; ckind_ := CKPlain; cerror := ENone; clambda := false |}];
                     l_snaps := []; l_post := [] |}];
     k_invs := Some [{| cid := 1; cargs := ["self"]; cmandatory := ["self"]; ckind_ := CKPlain; cerror := ENone; clambda := false |}];
     k_invs_all := []; k_invs_set := []; k_args := [PObj 1]; k_kwargs := [("_ARGS", PInt 7)];
     k_tables := {| t_cond := []; t_capture := []; t_error := []; t_body := BRet PNone; t_mutate := [] |};
     k_store := [] |}.
Lemma guard_nonvacuous :
  has_checker ex_guard_case && reserved_kw (k_kwargs ex_guard_case)
  && invs_hold_ ex_guard_case (invs_before ex_guard_case) (k_store ex_guard_case) = true
  /\ snd (run_case ex_guard_case) = inr (XLib "TypeError" None)
  /\ List.length (fst (run_case ex_guard_case)) = 1%nat.
Proof. repeat split; vm_compute; reflexivity. Qed.
