(** Facts about decorators and the metaclass merge (Model/Elab.v) used by C04, C15, C17, C18, C19. *)
From ICV Require Import Base Bind Checker CheckerSpec Elab.
Open Scope string_scope.
Open Scope list_scope.

(** ** C15: a disabled decorator returns the very object it was given and touches nothing *)
Lemma disabled_require w cur c : apply_deco w cur (DRequire c false) = Ok (w, cur).
Proof. reflexivity. Qed.
Lemma disabled_ensure w cur c : apply_deco w cur (DEnsure c false) = Ok (w, cur).
Proof. reflexivity. Qed.
Lemma disabled_snapshot w cur s : apply_deco w cur (DSnapshot s false) = Ok (w, cur).
Proof. reflexivity. Qed.
Lemma disabled_invalid w cur e en : apply_deco w cur (DInvalid e en) = Ok (w, cur).
Proof. reflexivity. Qed.
Lemma disabled_invariant w k c co inv : apply_invariant w k {| id_contract := c; id_check_on := co; id_enabled := false; id_invalid := inv |} = w.
Proof. reflexivity. Qed.

Definition all_disabled (ds : list deco) : Prop :=
  forall d, In d ds -> match d with
                       | DRequire _ en | DEnsure _ en | DSnapshot _ en | DInvalid _ en => en = false
                       | DForeign _ => False
                       end.

Lemma apply_all_disabled ds : forall w cur, all_disabled ds -> apply_decos w cur ds = Ok (w, cur).
Proof.
  induction ds as [|d ds IH]; intros w cur H; [reflexivity|].
  cbn [apply_decos]. assert (apply_deco w cur d = Ok (w, cur)) as ->.
  { specialize (H d (or_introl eq_refl)). destruct d; try (subst; reflexivity). destruct H. }
  cbn. apply IH. intros d' Hd'. apply H. right. exact Hd'.
Qed.

(** ** C19 / C08: definition-time rejections *)
Lemma invalid_decorator_rejected w s a ds e :
  construction_error (rev ds) = Some e -> define_function w s a ds = Err e.
Proof. intros H. unfold define_function. rewrite H. reflexivity. Qed.

Lemma reserved_parameter_rejected w cur f :
  get_func w cur = Some f -> sig_reserved (fo_sig f) = true -> decorate_with_checker w cur = Err "TypeError".
Proof. intros Hf Hr. unfold decorate_with_checker. rewrite Hf, Hr. reflexivity. Qed.

Lemma snapshot_without_checker_rejected w cur s :
  find_checker w cur = None -> apply_deco w cur (DSnapshot s true) = Err "ValueError".
Proof. intros H. unfold apply_deco. cbn [negb]. rewrite H. reflexivity. Qed.

Lemma snapshot_without_postcondition_rejected w cur s ch chf rs rq :
  find_checker w cur = Some ch -> get_func w ch = Some chf ->
  fo_snaps chf = Some rs -> fo_post chf = Some rq -> contracts_of w rq = [] ->
  apply_deco w cur (DSnapshot s true) = Err "ValueError".
Proof. intros H1 H2 H3 H4 H5. unfold apply_deco. cbn [negb]. rewrite H1, H2, H3, H4, H5. reflexivity. Qed.

Lemma duplicate_snapshot_rejected w cur s ch chf rs rq :
  find_checker w cur = Some ch -> get_func w ch = Some chf ->
  fo_snaps chf = Some rs -> fo_post chf = Some rq -> contracts_of w rq <> [] ->
  str_in (sname s) (snap_names w rs) = true ->
  apply_deco w cur (DSnapshot s true) = Err "ValueError".
Proof.
  intros H1 H2 H3 H4 H5 H6. unfold apply_deco. cbn [negb]. rewrite H1, H2, H3, H4.
  destruct (contracts_of w rq); [congruence|]. cbn [is_nil]. rewrite H6. reflexivity.
Qed.

(** ** C04: the merge rules as list algebra on the declarative semantics *)
Section Merge.
  Variables (m : mode) (U : user) (resolved : dict) (st : store).

  (** groups of the bases and the own group are alternatives (OR) *)
  Lemma pre_or bg og :
    bg <> [] -> pre_holds m U (bg ++ og) resolved st = pre_holds m U bg resolved st || existsb (group_holds m U resolved st) og.
  Proof.
    intros Hb. unfold pre_holds. destruct bg as [|g bg]; [congruence|].
    cbn [app is_nil orb existsb]. rewrite existsb_app, orb_assoc. reflexivity.
  Qed.

  (** a redefinition that declares none keeps the inherited precondition *)
  Lemma pre_kept bg : pre_holds m U (bg ++ []) resolved st = pre_holds m U bg resolved st.
  Proof. rewrite app_nil_r. reflexivity. Qed.

  (** no precondition anywhere: every call is accepted *)
  Lemma pre_accept_all : pre_holds m U [] resolved st = true.
  Proof. reflexivity. Qed.

  (** postconditions of the bases and the own ones all have to hold (AND) *)
  Lemma post_and bp op :
    posts_hold m U (bp ++ op) resolved st = posts_hold m U bp resolved st && posts_hold m U op resolved st.
  Proof. unfold posts_hold. apply forallb_app. Qed.
End Merge.

(** adding preconditions where the ancestors declare none is rejected when the class is created;
    constructors take no contracts from the bases *)
Lemma weaken_rejected w bases dbc key acc f :
  is_ctor key = false ->
  (let '(have0, bg, _, _) := collect_bases w bases key acc in
   is_nil bg = true
   /\ (have0 || (dbc && str_in key object_slots && match acc with MGet | MSet | MDel => false | _ => true end)) = true) ->
  (let '(g, _, _) := lists_of_checker w (find_checker w f) in is_nil g = false) ->
  decorate_namespace_fn w bases dbc key acc f = Err "TypeError".
Proof.
  intros Hc Hb Ho. unfold decorate_namespace_fn.
  destruct (lists_of_checker w (find_checker w f)) as [[og os] op]. rewrite Hc.
  destruct (collect_bases w bases key acc) as [[[have0 bg] bs] bp]. destruct Hb as [Hb1 Hb2].
  rewrite Hb1, Hb2, Ho. reflexivity.
Qed.
