(** The merge functions of the metaclass as translated from /repo on this run
    (Gen/Generated.v: [collapse_preconditions], [collapse_postconditions]) compute what
    Model/Elab.v's [decorate_namespace_fn] uses: base lists first, own lists after, and the
    "cannot weaken" rejection. *)
From ICV Require Import Base Generated Bind Checker Elab.
Open Scope string_scope.
Open Scope list_scope.

Lemma collapse_preconditions_refines (bg og : list pv) (have : bool) (func : pv) :
  collapse_preconditions (PList bg) (PBool have) (PList og) func
  = if is_nil bg && have && negb (is_nil og) then Err "TypeError" else Ok (PList (bg ++ og)).
Proof.
  unfold collapse_preconditions. destruct bg as [|b bg]; destruct have; destruct og as [|o og]; reflexivity.
Qed.

Lemma collapse_postconditions_refines (bp op : list pv) :
  collapse_postconditions (PList bp) (PList op) = Ok (PList (bp ++ op)).
Proof. reflexivity. Qed.

(** the order the property speaks of: inherited contracts precede a class's own *)
Lemma collapse_order_pre (bg og : list pv) (have : bool) func l :
  collapse_preconditions (PList bg) (PBool have) (PList og) func = Ok (PList l) -> l = bg ++ og.
Proof.
  rewrite collapse_preconditions_refines. destruct (is_nil bg && have && negb (is_nil og)); [discriminate|].
  intros H. injection H as <-. reflexivity.
Qed.
