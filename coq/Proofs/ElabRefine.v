(** The merge functions of the metaclass as translated from /repo on this run
    (Gen/Generated.v: [collapse_preconditions], [collapse_postconditions]) compute what
    Model/Elab.v's [decorate_namespace_fn] uses: base lists first, own lists after, and the
    "cannot weaken" rejection. *)
From ICV Require Import Base Generated Bind Checker Elab.
Open Scope string_scope.
Open Scope list_scope.

(** the groups inherited from the bases are copied ([list(group)]): as values the copies are the groups *)
Lemma copy_groups_value (bgl : list (list pv)) :
  filter_map_pv (fun x_ => let group := x_ in if true then Some (PList (py_iter group)) else None) (map PList bgl)
  = map PList bgl.
Proof. induction bgl as [|g r IH]; cbn; [reflexivity|]. f_equal. exact IH. Qed.

Lemma collapse_preconditions_refines (bgl : list (list pv)) (og : list pv) (have : bool) (func : pv) :
  collapse_preconditions (PList (map PList bgl)) (PBool have) (PList og) func
  = if is_nil bgl && have && negb (is_nil og) then Err "TypeError" else Ok (PList (map PList bgl ++ og)).
Proof.
  unfold collapse_preconditions. cbn [py_iter]. rewrite copy_groups_value.
  destruct bgl as [|b bgl]; destruct have; destruct og as [|o og]; reflexivity.
Qed.

Lemma collapse_postconditions_refines (bp op : list pv) :
  collapse_postconditions (PList bp) (PList op) = Ok (PList (bp ++ op)).
Proof. reflexivity. Qed.

(** the order the property speaks of: inherited contracts precede a class's own *)
Lemma collapse_order_pre (bgl : list (list pv)) (og : list pv) (have : bool) func l :
  collapse_preconditions (PList (map PList bgl)) (PBool have) (PList og) func = Ok (PList l) -> l = map PList bgl ++ og.
Proof.
  rewrite collapse_preconditions_refines. destruct (is_nil bgl && have && negb (is_nil og)); [discriminate|].
  intros H. injection H as <-. reflexivity.
Qed.

(** ** [_collapse_snapshots]: the same snapshot object reached along several paths is kept once
    (first occurrence); two different snapshots with one name are rejected. *)
Definition seen_before (x : pv) (acc : list pv) : bool := existsb (fun y => pv_eqb x y) acc.

Definition dedupe_pv (l : list pv) : list pv :=
  fold_left (fun acc x => if seen_before x acc then acc else acc ++ [x]) l [].

Fixpoint names_clash (l : list pv) (seen : list pv) : bool :=
  match l with
  | [] => false
  | x :: r => pv_in (py_attr x "name") seen
              || names_clash r (if pv_in (py_attr x "name") seen then seen else seen ++ [py_attr x "name"])
  end.

Lemma fold_res_total {S X} (f : S -> X -> res S) (g : S -> X -> S) l :
  (forall s x, f s x = Ok (g s x)) -> forall s, fold_res f l s = Ok (fold_left g l s).
Proof. intros H. induction l as [|x r IH]; intro s; cbn; [reflexivity|]. rewrite H. apply IH. Qed.

Lemma names_loop l : forall seen,
  fold_res (fun seen_names snap =>
              if py_truth (py_in (py_attr snap "name") seen_names) then Err "ValueError"
              else Ok (py_set_add seen_names (py_attr snap "name"))) l (PList seen)
  = if names_clash l seen then Err "ValueError"
    else Ok (PList (fold_left (fun sn x => if pv_in (py_attr x "name") sn then sn else sn ++ [py_attr x "name"]) l seen)).
Proof.
  induction l as [|x r IH]; intro seen; cbn [fold_res names_clash fold_left]; [reflexivity|].
  cbn [py_in py_truth]. destruct (pv_in (py_attr x "name") seen) eqn:E; cbn [orb]; [reflexivity|].
  cbn [py_set_add]. rewrite E. apply IH.
Qed.

Theorem collapse_snapshots_refines (bs os : list pv) :
  collapse_snapshots (PList bs) (PList os)
  = if names_clash (dedupe_pv (bs ++ os)) [] then Err "ValueError" else Ok (PList (dedupe_pv (bs ++ os))).
Proof.
  unfold collapse_snapshots. cbn [py_add py_iter].
  rewrite (fold_res_total _ (fun collapsed snap =>
             if py_truth (py_not (PBool (existsb (fun y => py_truth (py_eq snap y)) (py_iter collapsed))))
             then py_append collapsed snap else collapsed)).
  2:{ intros s x. destruct (py_truth _); reflexivity. }
  cbn [bind].
  assert (F : forall l acc,
            fold_left (fun collapsed snap =>
                         if py_truth (py_not (PBool (existsb (fun y => py_truth (py_eq snap y)) (py_iter collapsed))))
                         then py_append collapsed snap else collapsed) l (PList acc)
            = PList (fold_left (fun acc x => if seen_before x acc then acc else acc ++ [x]) l acc)).
  { induction l as [|x r IH]; intro acc; cbn [fold_left]; [reflexivity|].
    cbn [py_iter py_not py_truth py_eq]. unfold seen_before.
    destruct (existsb (fun y => pv_eqb x y) acc); cbn [negb py_append]; apply IH. }
  rewrite F. fold (dedupe_pv (bs ++ os)). cbn [py_iter].
  rewrite names_loop. destruct (names_clash (dedupe_pv (bs ++ os)) []); reflexivity.
Qed.
