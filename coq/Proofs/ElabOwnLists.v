(** The hypothesis of the class-statement frame theorem ([OwnLists], Proofs/ElabClassFrame.v) holds in every world
    that a history of definitions can reach, for every class created through the meta-class.

    Three facts about the classes of a reachable world ([WF]) are carried along every definition:
    the three invariant lists of a class exist together or not at all; a class that exists stands first in its
    own resolution order; a resolution order names classes that exist.  With them: if the new class got no list of
    its own, no direct base shows one (that is how [collapse_invariants] decides), hence no class of its resolution
    order has one - C3 merges nothing but the bases and their orders - and attribute lookup finds none. *)
From Coq Require Import List String ZArith Bool Arith Lia.
From ICV Require Import Base Bind Checker Elab ElabFrame ElabClassFrame.
Import ListNotations.
Open Scope string_scope.
Open Scope list_scope.

(** ** C3 merges nothing but its inputs *)
Lemma pick_head_in cands seqs h : pick_head cands seqs = Some h -> exists s, In s cands /\ In h s.
Proof.
  induction cands as [|c r IH]; cbn; [discriminate|].
  destruct c as [|x t].
  - intro H. destruct (IH H) as (s & Hs & Hh). exists s. split; [right; exact Hs|exact Hh].
  - destruct (in_some_tail x seqs).
    + intro H. destruct (IH H) as (s & Hs & Hh). exists s. split; [right; exact Hs|exact Hh].
    + intro H. injection H as <-. exists (x :: t). split; [left; reflexivity|left; reflexivity].
Qed.

Lemma drop_head_in x seqs s y : In s (drop_head x seqs) -> In y s -> exists s', In s' seqs /\ In y s'.
Proof.
  unfold drop_head. intros Hs Hy. apply in_map_iff in Hs as (s0 & <- & Hs0).
  destruct s0 as [|h t]; [contradiction|]. destruct (Nat.eqb h x).
  - exists (h :: t). split; [exact Hs0|right; exact Hy].
  - exists (h :: t). split; [exact Hs0|exact Hy].
Qed.

Lemma c3_merge_in : forall fuel seqs l, c3_merge fuel seqs = Some l ->
  forall x, In x l -> exists s, In s seqs /\ In x s.
Proof.
  induction fuel as [|fuel IH]; intros seqs l H x Hx; cbn [c3_merge] in H; [discriminate|].
  remember (filter (fun s => negb (is_nil s)) seqs) as seqs' eqn:Es.
  assert (Sub : forall s, In s seqs' -> In s seqs) by (intros s Hs; rewrite Es in Hs; apply filter_In in Hs; tauto).
  destruct seqs' as [|s0 r0]; [injection H as <-; contradiction|].
  destruct (pick_head (s0 :: r0) (s0 :: r0)) as [h|] eqn:Ph; [|discriminate].
  destruct (c3_merge fuel (drop_head h (s0 :: r0))) as [l'|] eqn:Em; [|discriminate]. injection H as <-.
  destruct Hx as [<-|Hx].
  - destruct (pick_head_in _ _ _ Ph) as (s & Hs & Hh). exists s. split; [apply Sub; exact Hs|exact Hh].
  - destruct (IH _ _ Em x Hx) as (s & Hs & Hxs). destruct (drop_head_in _ _ _ _ Hs Hxs) as (s' & Hs' & Hx').
    exists s'. split; [apply Sub; exact Hs'|exact Hx'].
Qed.

(** ** the invariant of reachable worlds, on what attribute lookup depends on *)
Definition view := (list nat * option ref * option ref * option ref)%type.

Definition triple_ok (v : view) : Prop :=
  match v with
  | (_, None, None, None) => True
  | (_, Some _, Some _, Some _) => True
  | _ => False
  end.

Definition WFv (vs : list view) : Prop :=
  forall k v, nth_error vs k = Some v ->
    triple_ok v /\
    (match v with (mro, _, _, _) => mro = [] \/ exists rest, mro = k :: rest end) /\
    (match v with (mro, _, _, _) => forall j, In j mro -> j < List.length vs /\
                                     exists vj, nth_error vs j = Some vj /\ (match vj with (m, _, _, _) => m <> [] end) end).

Definition WF (w : world) : Prop := WFv (inv_view w).

Lemma WF_view w w' : inv_view w = inv_view w' -> WF w -> WF w'.
Proof. unfold WF. intros ->. auto. Qed.

Lemma WF_empty : WF empty_world.
Proof. intros k v H. destruct k; discriminate. Qed.

(** ** what a class statement adds to the view *)
Definition sel (which : inv_list) (i1 i2 i3 : option ref) : option ref :=
  match which with LInv => i1 | LCall => i2 | LSet => i3 end.

Lemma inv_view_same_classes w w' : w_classes w = w_classes w' -> inv_view w = inv_view w'.
Proof. unfold inv_view. intros ->. reflexivity. Qed.

Lemma class_inv_same_classes w w' k which : w_classes w = w_classes w' -> class_inv w k which = class_inv w' k which.
Proof. intro H. apply class_inv_view. apply inv_view_same_classes. exact H. Qed.

Lemma bhi_same_classes w w' bases : w_classes w = w_classes w' -> base_has_invariants w bases = base_has_invariants w' bases.
Proof.
  intro H. unfold base_has_invariants. induction bases as [|b r IH]; cbn; [reflexivity|].
  rewrite (class_inv_same_classes w w' b LInv H), IH. reflexivity.
Qed.

Lemma collapse_none w bases which w' :
  collapse_invariants w bases which = (w', None) -> base_has_invariants w bases = false.
Proof.
  unfold collapse_invariants. destruct (negb (is_nil _)) eqn:E1; cbn [orb].
  - destruct (alloc w _). discriminate.
  - destruct (base_has_invariants w bases); [destruct (alloc w _); discriminate|reflexivity].
Qed.

Lemma collapse_some w bases which w' r :
  collapse_invariants w bases which = (w', Some r) ->
  base_has_invariants w bases = true \/ exists b, In b bases /\ class_inv w b which <> None.
Proof.
  unfold collapse_invariants. destruct (negb (is_nil (flat_map (fun b => class_invs w b which) bases))) eqn:E1; cbn [orb].
  - intros _. right.
    destruct (flat_map (fun b => class_invs w b which) bases) as [|x l] eqn:Ef; [discriminate|].
    assert (Hin : In x (flat_map (fun b => class_invs w b which) bases)) by (rewrite Ef; left; reflexivity).
    apply in_flat_map in Hin as (b & Hb & Hx). exists b. split; [exact Hb|].
    unfold class_invs in Hx. destruct (class_inv w b which); [discriminate|contradiction].
  - destruct (base_has_invariants w bases); [left; reflexivity|discriminate].
Qed.

Definition is_meta (w : world) (d : cdecl) : bool :=
  cd_dbc d || existsb (fun b => match get_class w b with Some c => co_meta c | None => false end) (cd_bases d).

Lemma define_class_pre_shape w d w5 k :
  define_class_pre w d = Ok (w5, k) ->
  k = List.length (w_classes w) /\ forallb (is_live w) (cd_bases d) = true /\
  exists rest i1 i2 i3,
    inv_view w5 = inv_view w ++ [(k :: rest, i1, i2, i3)] /\
    c3_merge (S (List.length (w_classes w)) * S (List.length (cd_bases d)) + 1)
             (map (mro_of w) (cd_bases d) ++ [cd_bases d]) = Some rest /\
    (if is_meta w d
     then forall which,
            (sel which i1 i2 i3 = None -> base_has_invariants w (cd_bases d) = false) /\
            (sel which i1 i2 i3 <> None ->
             base_has_invariants w (cd_bases d) = true \/ exists b, In b (cd_bases d) /\ class_inv w b which <> None)
     else i1 = None /\ i2 = None /\ i3 = None).
Proof.
  unfold define_class_pre. intro H.
  destruct (inv_construction_error (rev (cd_invs d))); [discriminate|].
  destruct (forallb (is_live w) (cd_bases d)) eqn:Live; cbn [negb] in H; [|discriminate].
  destruct (define_members w (cd_bases d) (cd_members d) []) as [[w1 ns]|e] eqn:Dm; cbn [bind] in H; [|discriminate].
  assert (Fc0 : FreshClosed w w).
  { intros f fo Hf Hg. apply get_func_bound in Hg. lia. }
  assert (N0 : NsOk w w (cd_bases d) []) by (intros key m []).
  destruct (define_members_good w (cd_bases d) (cd_members d) w [] w1 ns (Keeps_refl w) Fc0 N0 Dm) as (K1 & C1 & N1).
  assert (E1 : w_classes w1 = w_classes w) by (apply Keeps_classes; exact K1).
  rewrite E1 in H.
  assert (Emro : compute_mro w1 (List.length (w_classes w)) (cd_bases d) =
                 option_map (cons (List.length (w_classes w)))
                   (c3_merge (S (List.length (w_classes w)) * S (List.length (cd_bases d)) + 1)
                             (map (mro_of w) (cd_bases d) ++ [cd_bases d]))).
  { unfold compute_mro. rewrite E1. f_equal. f_equal. f_equal. apply map_ext. intro b. unfold mro_of, get_class. rewrite E1. reflexivity. }
  rewrite Emro in H.
  destruct (c3_merge _ _) as [rest|] eqn:Ec; cbn [option_map] in H;
    [|match type of H with context [if ?b then ?x else ?y] => destruct (if b then x else y) end; discriminate].
  split; [|split; [reflexivity|]].
  { destruct (cd_dbc d || existsb _ (cd_bases d)).
    - destruct (collapse_invariants w1 _ LInv) as [wa i1]. destruct (collapse_invariants wa _ LCall) as [wb i2].
      destruct (collapse_invariants wb _ LSet) as [wc i3].
      destruct (dbc_decorate_members wc _ _ ns ns) as [[w2 ns2]|e]; cbn [bind] in H; [|discriminate]. injection H as _ <-. reflexivity.
    - cbn [bind] in H. injection H as _ <-. reflexivity. }
  assert (Em : (cd_dbc d || existsb (fun b => match get_class w1 b with Some c => co_meta c | None => false end) (cd_bases d))
               = is_meta w d).
  { unfold is_meta, get_class. rewrite E1. reflexivity. }
  rewrite Em in H.
  destruct (is_meta w d) eqn:Meta.
  - destruct (collapse_invariants w1 (cd_bases d) LInv) as [wa i1] eqn:Ca.
    destruct (collapse_invariants wa (cd_bases d) LCall) as [wb i2] eqn:Cb.
    destruct (collapse_invariants wb (cd_bases d) LSet) as [wc i3] eqn:Cc.
    assert (Ka : Keeps w wa) by (replace wa with (fst (collapse_invariants w1 (cd_bases d) LInv)) by (rewrite Ca; reflexivity); apply Keeps_collapse_invariants; exact K1).
    assert (Kb : Keeps w wb) by (replace wb with (fst (collapse_invariants wa (cd_bases d) LCall)) by (rewrite Cb; reflexivity); apply Keeps_collapse_invariants; exact Ka).
    assert (Kc : Keeps w wc) by (replace wc with (fst (collapse_invariants wb (cd_bases d) LSet)) by (rewrite Cc; reflexivity); apply Keeps_collapse_invariants; exact Kb).
    assert (Fc : FC w wc).
    { replace wc with (fst (collapse_invariants wb (cd_bases d) LSet)) by (rewrite Cc; reflexivity). apply FC_collapse_invariants.
      replace wb with (fst (collapse_invariants wa (cd_bases d) LCall)) by (rewrite Cb; reflexivity). apply FC_collapse_invariants.
      replace wa with (fst (collapse_invariants w1 (cd_bases d) LInv)) by (rewrite Ca; reflexivity). apply FC_collapse_invariants.
      apply FreshClosed_FC. exact C1. }
    destruct (dbc_decorate_members wc (cd_bases d) (cd_dbc d) ns ns) as [[w2 ns2]|e] eqn:Dd; cbn [bind fst snd] in H; [|discriminate].
    assert (Nc : forall key m, In (key, m) ns -> member_ok w wc (cd_bases d) key m).
    { intros key m Hin. apply member_ok_same_classes with (w := w1).
      - rewrite E1, (Keeps_classes w wc Kc). reflexivity.
      - apply N1. exact Hin. }
    destruct (dbc_decorate_members_good w (cd_bases d) (cd_dbc d) ns wc ns w2 ns2 Kc Fc Nc Dd) as (K2 & _).
    assert (E2 : w_classes w2 = w_classes w) by (apply Keeps_classes; exact K2).
    set (k0 := List.length (w_classes w)) in *.
    set (cls := {| co_name := k0; co_bases := cd_bases d; co_mro := k0 :: rest; co_meta := true; co_ns := ns2;
                   co_inv := i1; co_inv_call := i2; co_inv_set := i3; co_last_check_on := None |}) in *.
    set (w3 := {| w_heap := w_heap w2; w_funcs := w_funcs w2; w_classes := w_classes w2 ++ [cls];
                  w_registered := w_registered w2; w_module := w_module w2 |}) in *.
    set (w4 := match class_inv w3 k0 LInv with Some _ => add_invariant_checks w3 k0 | None => w3 end) in *.
    assert (V4 : inv_view w4 = inv_view w3) by (unfold w4; destruct (class_inv w3 k0 LInv); [apply inv_view_add_invariant_checks|reflexivity]).
    assert (V3 : inv_view w3 = inv_view w ++ [(k0 :: rest, i1, i2, i3)]).
    { unfold inv_view, w3. cbn [w_classes]. rewrite map_app, E2. reflexivity. }
    injection H as Hw5 Hk5. subst w5. subst k.
    exists rest, i1, i2, i3. split; [|split; [reflexivity|]].
    + change (inv_view {| w_heap := w_heap w4; w_funcs := w_funcs w4; w_classes := w_classes w4;
                          w_registered := w_registered w4 ++ [k0]; w_module := w_module w4 |}) with (inv_view w4).
      rewrite V4. exact V3.
    + intros which.
      assert (Bw1 : base_has_invariants w1 (cd_bases d) = base_has_invariants w (cd_bases d)) by (apply bhi_same_classes; exact E1).
      assert (Bwa : base_has_invariants wa (cd_bases d) = base_has_invariants w (cd_bases d)) by (apply bhi_same_classes; apply Keeps_classes; exact Ka).
      assert (Bwb : base_has_invariants wb (cd_bases d) = base_has_invariants w (cd_bases d)) by (apply bhi_same_classes; apply Keeps_classes; exact Kb).
      destruct which; cbn [sel]; split; intro Hs.
      * subst i1. rewrite <- Bw1. eapply collapse_none; exact Ca.
      * destruct i1 as [r|]; [|congruence]. destruct (collapse_some _ _ _ _ _ Ca) as [Hb|(b & Hb & Hc)].
        -- left. rewrite <- Bw1. exact Hb.
        -- right. exists b. split; [exact Hb|]. rewrite <- (class_inv_same_classes w1 w b LInv E1). exact Hc.
      * subst i2. rewrite <- Bwa. eapply collapse_none; exact Cb.
      * destruct i2 as [r|]; [|congruence]. destruct (collapse_some _ _ _ _ _ Cb) as [Hb|(b & Hb & Hc)].
        -- left. rewrite <- Bwa. exact Hb.
        -- right. exists b. split; [exact Hb|]. rewrite <- (class_inv_same_classes wa w b LCall (Keeps_classes w wa Ka)). exact Hc.
      * subst i3. rewrite <- Bwb. eapply collapse_none; exact Cc.
      * destruct i3 as [r|]; [|congruence]. destruct (collapse_some _ _ _ _ _ Cc) as [Hb|(b & Hb & Hc)].
        -- left. rewrite <- Bwb. exact Hb.
        -- right. exists b. split; [exact Hb|]. rewrite <- (class_inv_same_classes wb w b LSet (Keeps_classes w wb Kb)). exact Hc.
  - cbn [bind] in H. injection H as Hw5 Hk5. subst w5. subst k.
    exists rest, None, None, None. split; [|split; [reflexivity|auto]].
    unfold inv_view. cbn [w_classes]. rewrite map_app, E1. reflexivity.
Qed.

(** ** attribute lookup, on views *)
Definition view_of (c : cobj) : view := (co_mro c, co_inv c, co_inv_call c, co_inv_set c).
Definition vsel (which : inv_list) (v : view) : option ref := match v with (_, a, b, c) => sel which a b c end.
Definition vmro (v : view) : list nat := match v with (m, _, _, _) => m end.

Lemma own_inv_view c which : own_inv c which = vsel which (view_of c).
Proof. destruct which; reflexivity. Qed.

Lemma nth_view w j : nth_error (inv_view w) j = option_map view_of (get_class w j).
Proof. unfold inv_view, get_class. apply nth_error_map. Qed.

Fixpoint vlookup (vs : list view) (ks : list nat) (which : inv_list) : option ref :=
  match ks with
  | [] => None
  | k :: r => match nth_error vs k with
              | Some v => match vsel which v with Some x => Some x | None => vlookup vs r which end
              | None => vlookup vs r which
              end
  end.

Lemma lookup_vlookup w ks which : lookup_inv_in w ks which = vlookup (inv_view w) ks which.
Proof.
  induction ks as [|k r IH]; cbn; [reflexivity|]. rewrite nth_view. destruct (get_class w k) as [c|]; cbn; [|exact IH].
  rewrite own_inv_view, IH. reflexivity.
Qed.

Lemma class_inv_v w k which :
  class_inv w k which = vlookup (inv_view w) (match nth_error (inv_view w) k with Some v => vmro v | None => [] end) which.
Proof.
  unfold class_inv. rewrite lookup_vlookup. f_equal. unfold mro_of. rewrite nth_view. destruct (get_class w k); reflexivity.
Qed.

Lemma vlookup_some vs ks which r :
  vlookup vs ks which = Some r -> exists j v, In j ks /\ nth_error vs j = Some v /\ vsel which v = Some r.
Proof.
  induction ks as [|k rest IH]; cbn; [discriminate|].
  destruct (nth_error vs k) as [v|] eqn:E.
  - destruct (vsel which v) as [x|] eqn:Ev.
    + intro H. injection H as <-. exists k, v. auto.
    + intro H. destruct (IH H) as (j & vj & Hin & Hn & Hs). exists j, vj. auto.
  - intro H. destruct (IH H) as (j & vj & Hin & Hn & Hs). exists j, vj. auto.
Qed.

Lemma vlookup_found vs ks which j v r :
  In j ks -> nth_error vs j = Some v -> vsel which v = Some r -> exists r', vlookup vs ks which = Some r'.
Proof.
  induction ks as [|k rest IH]; [contradiction|]. intros [<-|Hin] Hn Hs; cbn.
  - rewrite Hn, Hs. eauto.
  - destruct (nth_error vs k) as [vk|]; [destruct (vsel which vk); eauto|eauto].
Qed.

Lemma triple_inv v which r : triple_ok v -> vsel which v = Some r -> exists r', vsel LInv v = Some r'.
Proof.
  destruct v as [[[m a] b] c]. destruct a, b, c; cbn; try contradiction; intros _ H; eauto.
  destruct which; discriminate.
Qed.

(** a base that reaches a class with a list shows the list of all invariants *)
Lemma base_shows_inv vs b vb j vj which r :
  WFv vs -> nth_error vs b = Some vb -> In j (vmro vb) -> nth_error vs j = Some vj -> vsel which vj = Some r ->
  exists r', vlookup vs (vmro vb) LInv = Some r'.
Proof.
  intros Hwf Hb Hj Hnj Hs.
  destruct (vlookup_found vs (vmro vb) which j vj r Hj Hnj Hs) as (r1 & H1).
  destruct (vlookup_some vs (vmro vb) which r1 H1) as (j' & vj' & Hin' & Hn' & Hs').
  destruct (Hwf j' vj' Hn') as (Ht & _ & _).
  destruct (triple_inv vj' which r1 Ht Hs') as (r2 & H2).
  exact (vlookup_found vs (vmro vb) LInv j' vj' r2 Hin' Hn' H2).
Qed.

Lemma bhi_true w bases b : In b bases -> class_inv w b LInv <> None -> base_has_invariants w bases = true.
Proof.
  intros Hin Hc. unfold base_has_invariants. apply existsb_exists. exists b. split; [exact Hin|].
  destruct (class_inv w b LInv); [reflexivity|congruence].
Qed.

Lemma live_view w b : is_live w b = true -> exists vb, nth_error (inv_view w) b = Some vb /\ vmro vb <> [] /\ mro_of w b = vmro vb.
Proof.
  unfold is_live, mro_of. rewrite nth_view. destruct (get_class w b) as [c|]; [|discriminate]. intro H.
  exists (view_of c). split; [reflexivity|]. split; [|reflexivity]. cbn. destruct (co_mro c); [discriminate|discriminate].
Qed.

(** no class of the new class's resolution order has a list when no direct base shows one *)
Lemma nothing_above w bases rest :
  WF w -> forallb (is_live w) bases = true -> base_has_invariants w bases = false ->
  c3_merge (S (List.length (w_classes w)) * S (List.length bases) + 1) (map (mro_of w) bases ++ [bases]) = Some rest ->
  forall j, In j rest -> j < List.length (inv_view w) /\
                         exists vj, nth_error (inv_view w) j = Some vj /\ vmro vj <> [] /\ forall which, vsel which vj = None.
Proof.
  intros Hwf Hlive Hb Hc j Hj.
  assert (Key : forall b, In b bases -> forall vb, nth_error (inv_view w) b = Some vb -> mro_of w b = vmro vb ->
                forall j, In j (vmro vb) ->
                j < List.length (inv_view w) /\ exists vj, nth_error (inv_view w) j = Some vj /\ vmro vj <> [] /\ forall which, vsel which vj = None).
  { intros b Hbin vb Hvb Hm j0 Hj0. destruct (Hwf b vb Hvb) as (_ & _ & Hval).
    assert (Hv : forall j1, In j1 (vmro vb) -> j1 < List.length (inv_view w) /\
                            exists vj, nth_error (inv_view w) j1 = Some vj /\ vmro vj <> []).
    { destruct vb as [[[m a] bb] cc]. cbn in *. intros j1 H1. destruct (Hval j1 H1) as (Hl & vj & Hn & Hne).
      split; [exact Hl|]. exists vj. split; [exact Hn|]. destruct vj as [[[mj aj] bj] cj]. exact Hne. }
    destruct (Hv j0 Hj0) as (Hl & vj & Hn & Hne). split; [exact Hl|]. exists vj. split; [exact Hn|]. split; [exact Hne|].
    intro which. destruct (vsel which vj) as [r|] eqn:Es; [|reflexivity]. exfalso.
    destruct (base_shows_inv (inv_view w) b vb j0 vj which r Hwf Hvb Hj0 Hn Es) as (r' & Hr').
    assert (Hci : class_inv w b LInv = Some r') by (rewrite class_inv_v, Hvb; exact Hr').
    rewrite (bhi_true w bases b Hbin) in Hb; [discriminate|congruence]. }
  destruct (c3_merge_in _ _ _ Hc j Hj) as (s & Hs & Hjs).
  apply in_app_or in Hs as [Hs|[<-|[]]].
  - apply in_map_iff in Hs as (b & <- & Hbin).
    assert (Lb : is_live w b = true) by (rewrite forallb_forall in Hlive; apply Hlive; exact Hbin).
    destruct (live_view w b Lb) as (vb & Hvb & _ & Hm). rewrite Hm in Hjs. exact (Key b Hbin vb Hvb Hm j Hjs).
  - (* a direct base itself *)
    assert (Lj : is_live w j = true) by (rewrite forallb_forall in Hlive; apply Hlive; exact Hjs).
    destruct (live_view w j Lj) as (vj & Hvj & Hne & Hm).
    destruct (Hwf j vj Hvj) as (_ & Hhead & _).
    assert (Hself : In j (vmro vj)).
    { destruct vj as [[[m a] b] c]. cbn in *. destruct Hhead as [->|(r & ->)]; [congruence|left; reflexivity]. }
    exact (Key j Hjs vj Hvj Hm j Hself).
Qed.

Lemma vlookup_none vs ks which :
  (forall j, In j ks -> exists vj, nth_error vs j = Some vj /\ vsel which vj = None) -> vlookup vs ks which = None.
Proof.
  induction ks as [|k r IH]; intro H; cbn; [reflexivity|].
  destruct (H k (or_introl eq_refl)) as (vk & Hn & Hs). rewrite Hn, Hs. apply IH. intros j Hj. apply H. right. exact Hj.
Qed.

(** ** the hypothesis of the frame theorem, for classes created through the meta-class *)
Theorem own_lists_of_meta_class w d w5 k :
  WF w -> define_class_pre w d = Ok (w5, k) -> is_meta w d = true -> OwnLists w5 k.
Proof.
  intros Hwf Hd Hm which r Hr.
  destruct (define_class_pre_shape w d w5 k Hd) as (Hk & Hlive & rest & i1 & i2 & i3 & Hv & Hc & Hmeta).
  rewrite Hm in Hmeta.
  assert (Hlen : List.length (inv_view w) = k) by (unfold inv_view; rewrite map_length; symmetry; exact Hk).
  assert (Hnk : nth_error (inv_view w5) k = Some (k :: rest, i1, i2, i3)).
  { rewrite Hv, nth_error_app2 by lia. rewrite Hlen, Nat.sub_diag. reflexivity. }
  pose proof Hnk as Hg. rewrite nth_view in Hg. destruct (get_class w5 k) as [c|] eqn:Gc; [|discriminate].
  assert (Hvc : view_of c = (k :: rest, i1, i2, i3)) by (cbn [option_map] in Hg; congruence).
  exists c. split; [reflexivity|]. rewrite own_inv_view, Hvc. cbn [vsel].
  rewrite class_inv_v, Hnk in Hr. cbn [vmro vlookup] in Hr. unfold view in Hr. rewrite Hnk in Hr. cbn [vsel] in Hr.
  destruct (sel which i1 i2 i3) as [x|] eqn:Es; [exact Hr|]. exfalso.
  destruct (Hmeta which) as [Hnone _]. pose proof (Hnone Es) as Hb.
  assert (Hn : vlookup (inv_view w5) rest which = None).
  { apply vlookup_none. intros j Hj.
    destruct (nothing_above w (cd_bases d) rest Hwf Hlive Hb Hc j Hj) as (Hl & vj & Hnj & _ & Hs).
    exists vj. split; [|apply Hs]. rewrite Hv, nth_error_app1 by exact Hl. exact Hnj. }
  rewrite Hn in Hr. discriminate.
Qed.

(** ** [WF] is kept by every definition *)
Lemma wrap_classes w role cur w' n : wrap w role cur = Some (w', n) -> w_classes w' = w_classes w.
Proof. unfold wrap. destruct (get_func w cur); [|discriminate]. intro H. injection H as <- _. reflexivity. Qed.

Lemma decorate_with_checker_classes w cur w' n : decorate_with_checker w cur = Ok (w', n) -> w_classes w' = w_classes w.
Proof.
  unfold decorate_with_checker. destruct (get_func w cur); [|discriminate]. destruct (sig_reserved _); [discriminate|].
  cbn. intro H. injection H as <- _. reflexivity.
Qed.

Lemma apply_deco_classes w cur d w' cur' : apply_deco w cur d = Ok (w', cur') -> w_classes w' = w_classes w.
Proof.
  destruct d as [c en|c en|s en|k|e en]; unfold apply_deco.
  - destruct en; cbn [negb]; [|intro H; injection H as <- _; reflexivity].
    destruct (find_checker w cur) as [ch|].
    + cbn [bind]. destruct (get_func w ch) as [chf|]; [|discriminate]. destruct (fo_pre chf) as [rp|]; [|discriminate].
      destruct (group_refs w rp) as [|g [|g2 gs]]; try discriminate.
      * destruct (alloc w []) as [wa g] eqn:Ea. intro H. injection H as <- _. cbn. unfold alloc in Ea. injection Ea as <- _. reflexivity.
      * intro H. injection H as <- _. reflexivity.
    + destruct (decorate_with_checker w cur) as [[w1 ch]|e] eqn:D; cbn [bind fst snd]; [|discriminate].
      pose proof (decorate_with_checker_classes _ _ _ _ D) as E1.
      destruct (get_func w1 ch) as [chf|]; [|discriminate]. destruct (fo_pre chf) as [rp|]; [|discriminate].
      destruct (group_refs w1 rp) as [|g [|g2 gs]]; try discriminate.
      * destruct (alloc w1 []) as [wa g] eqn:Ea. intro H. injection H as <- _. cbn. unfold alloc in Ea. injection Ea as <- _. exact E1.
      * intro H. injection H as <- _. exact E1.
  - destruct en; cbn [negb]; [|intro H; injection H as <- _; reflexivity].
    destruct (find_checker w cur) as [ch|].
    + cbn [bind]. destruct (get_func w ch) as [chf|]; [|discriminate]. destruct (fo_post chf) as [rq|]; [|discriminate].
      intro H. injection H as <- _. reflexivity.
    + destruct (decorate_with_checker w cur) as [[w1 ch]|e] eqn:D; cbn [bind fst snd]; [|discriminate].
      pose proof (decorate_with_checker_classes _ _ _ _ D) as E1.
      destruct (get_func w1 ch) as [chf|]; [|discriminate]. destruct (fo_post chf) as [rq|]; [|discriminate].
      intro H. injection H as <- _. exact E1.
  - destruct en; cbn [negb]; [|intro H; injection H as <- _; reflexivity].
    destruct (find_checker w cur) as [ch|]; [|discriminate]. destruct (get_func w ch) as [chf|]; [|discriminate].
    destruct (fo_snaps chf) as [rs|]; [|discriminate]. destruct (fo_post chf) as [rq|]; [|discriminate].
    destruct (is_nil _); [discriminate|]. destruct (str_in _ _); [discriminate|]. intro H. injection H as <- _. reflexivity.
  - destruct (wrap w (FForeign k) cur) as [[w1 n]|] eqn:W; [|discriminate]. intro H. injection H as <- _. exact (wrap_classes _ _ _ _ _ W).
  - intro H. injection H as <- _. reflexivity.
Qed.

Lemma WFv_app_dead vs : WFv vs -> WFv (vs ++ [([], None, None, None)]).
Proof.
  intros H k v Hn. destruct (Nat.lt_ge_cases k (List.length vs)) as [Hl|Hl].
  - rewrite nth_error_app1 in Hn by exact Hl. destruct (H k v Hn) as (A & B & C). split; [exact A|]. split; [exact B|].
    destruct v as [[[m a] b] c]. intros j Hj. destruct (C j Hj) as (Hjl & vj & Hnj & Hne). rewrite app_length. cbn. split; [lia|].
    exists vj. split; [rewrite nth_error_app1 by exact Hjl; exact Hnj|exact Hne].
  - rewrite nth_error_app2 in Hn by exact Hl. destruct (k - List.length vs) as [|n] eqn:E; cbn in Hn; [|destruct n; discriminate].
    injection Hn as <-. cbn. split; [exact I|]. split; [left; reflexivity|]. intros j [].
Qed.

(** a class gets lists of its own: its view changes in the lists only, to three lists *)
Lemma map_set_nth {A B} (f : A -> B) (l : list A) i x : map f (set_nth l i x) = set_nth (map f l) i (f x).
Proof. revert i. induction l as [|a r IH]; intros [|i]; cbn; auto. f_equal. apply IH. Qed.

Lemma nth_error_set_nth {A} (l : list A) i j x :
  nth_error (set_nth l i x) j = if Nat.eqb i j then (match nth_error l i with Some _ => Some x | None => None end) else nth_error l j.
Proof.
  revert i j. induction l as [|a r IH]; intros i j.
  - cbn. destruct i, j; cbn; try reflexivity. destruct (Nat.eqb i j); reflexivity.
  - destruct i as [|i], j as [|j]; cbn; try reflexivity. apply IH.
Qed.

Lemma WFv_set_lists vs k m a b c r1 r2 r3 :
  WFv vs -> nth_error vs k = Some (m, a, b, c) -> WFv (set_nth vs k (m, Some r1, Some r2, Some r3)).
Proof.
  intros H Hk k' v Hn. rewrite nth_error_set_nth in Hn.
  assert (Len : forall j vj, nth_error vs j = Some vj ->
                exists vj', nth_error (set_nth vs k (m, Some r1, Some r2, Some r3)) j = Some vj' /\ vmro vj' = vmro vj).
  { intros j vj Hj. rewrite nth_error_set_nth. destruct (Nat.eqb k j) eqn:E.
    - apply Nat.eqb_eq in E. subst j. rewrite Hk. rewrite Hk in Hj. injection Hj as <-. eexists. split; reflexivity.
    - exists vj. split; [exact Hj|reflexivity]. }
  assert (Hlen : List.length (set_nth vs k (m, Some r1, Some r2, Some r3)) = List.length vs).
  { clear. revert k. induction vs as [|x r IH]; intros [|k]; cbn; auto. }
  assert (Fix : forall mm : list nat,
            (forall j, In j mm -> j < List.length vs /\ exists vj, nth_error vs j = Some vj /\ (match vj with (m0, _, _, _) => m0 <> [] end)) ->
            forall j, In j mm -> j < List.length (set_nth vs k (m, Some r1, Some r2, Some r3)) /\
                                 exists vj, nth_error (set_nth vs k (m, Some r1, Some r2, Some r3)) j = Some vj /\
                                            (match vj with (m0, _, _, _) => m0 <> [] end)).
  { intros mm C j Hj. destruct (C j Hj) as (Hl & vj & Hnj & Hne). rewrite Hlen. split; [exact Hl|].
    destruct (Len j vj Hnj) as (vj' & Hn' & Hm'). exists vj'. split; [exact Hn'|].
    destruct vj as [[[mj aj] bj] cj], vj' as [[[mj' aj'] bj'] cj']. cbn in Hm'. subst mj'. exact Hne. }
  destruct (Nat.eqb k k') eqn:E.
  - apply Nat.eqb_eq in E. subst k'. rewrite Hk in Hn. injection Hn as <-.
    destruct (H k _ Hk) as (_ & B & C). split; [exact I|]. split; [exact B|]. apply Fix. exact C.
  - destruct (H k' v Hn) as (A & B & C). split; [exact A|]. split; [exact B|]. destruct v as [[[mv av] bv] cv]. apply Fix. exact C.
Qed.

Lemma inv_view_class_set_invs w k a b c :
  inv_view (class_set_invs w k a b c) =
  match nth_error (inv_view w) k with
  | Some (m, _, _, _) => set_nth (inv_view w) k (m, a, b, c)
  | None => inv_view w
  end.
Proof.
  unfold class_set_invs. rewrite nth_view. destruct (get_class w k) as [co|]; cbn [option_map]; [|reflexivity].
  unfold view_of, inv_view, set_class. cbn [w_classes]. rewrite map_set_nth. reflexivity.
Qed.

Lemma WF_apply_invariant w k d : WF w -> WF (apply_invariant w k d).
Proof.
  intro H. unfold apply_invariant. destruct (negb (id_enabled d)); [exact H|].
  set (w1 := match class_inv w k LInv with
             | Some _ => w
             | None => let '(wa, r1) := alloc w [] in let '(wb, r2) := alloc wa [] in let '(wc, r3) := alloc wb [] in
                       class_set_invs wc k (Some r1) (Some r2) (Some r3)
             end).
  assert (H1 : WF w1).
  { unfold w1. destruct (class_inv w k LInv); [exact H|].
    destruct (alloc w []) as [wa r1] eqn:A1. destruct (alloc wa []) as [wb r2] eqn:A2. destruct (alloc wb []) as [wc r3] eqn:A3.
    assert (Vc : inv_view wc = inv_view w).
    { unfold alloc in A1, A2, A3. injection A1 as <- _. injection A2 as <- _. injection A3 as <- _. reflexivity. }
    unfold WF. rewrite inv_view_class_set_invs, Vc. destruct (nth_error (inv_view w) k) as [[[[m a] b] c]|] eqn:Ek; [|exact H].
    eapply WFv_set_lists; [exact H|exact Ek]. }
  fold w1.
  destruct (class_inv w1 k LInv) as [r1|]; [|exact H1]. destruct (class_inv w1 k LCall) as [r2|]; [|exact H1].
  destruct (class_inv w1 k LSet) as [r3|]; [|exact H1].
  eapply WF_view; [|exact H1]. rewrite inv_view_add_invariant_checks.
  destruct (on_setattr _), (on_call _); reflexivity.
Qed.

Lemma WF_apply_invariants k : forall ds w, WF w -> WF (fold_left (fun acc i => apply_invariant acc k i) ds w).
Proof. induction ds as [|d r IH]; intros w H; cbn; [exact H|]. apply IH. apply WF_apply_invariant. exact H. Qed.

(** the resolution order of a new class names existing classes *)
Lemma rest_valid w bases rest :
  WF w -> forallb (is_live w) bases = true ->
  c3_merge (S (List.length (w_classes w)) * S (List.length bases) + 1) (map (mro_of w) bases ++ [bases]) = Some rest ->
  forall j, In j rest -> j < List.length (inv_view w) /\ exists vj, nth_error (inv_view w) j = Some vj /\ vmro vj <> [].
Proof.
  intros Hwf Hlive Hc j Hj. destruct (c3_merge_in _ _ _ Hc j Hj) as (s & Hs & Hjs).
  apply in_app_or in Hs as [Hs|[<-|[]]].
  - apply in_map_iff in Hs as (b & <- & Hbin).
    assert (Lb : is_live w b = true) by (rewrite forallb_forall in Hlive; apply Hlive; exact Hbin).
    destruct (live_view w b Lb) as (vb & Hvb & _ & Hm). rewrite Hm in Hjs.
    destruct (Hwf b vb Hvb) as (_ & _ & Hval). destruct vb as [[[m a] bb] cc]. cbn in *.
    destruct (Hval j Hjs) as (Hl & vj & Hn & Hne). split; [exact Hl|]. exists vj. split; [exact Hn|].
    destruct vj as [[[mj aj] bj] cj]. exact Hne.
  - assert (Lj : is_live w j = true) by (rewrite forallb_forall in Hlive; apply Hlive; exact Hjs).
    destruct (live_view w j Lj) as (vj & Hvj & Hne & _). split; [apply nth_error_Some; congruence|]. exists vj. auto.
Qed.

Lemma triple_of_new w d rest i1 i2 i3 :
  WF w ->
  (if is_meta w d
   then forall which,
          (sel which i1 i2 i3 = None -> base_has_invariants w (cd_bases d) = false) /\
          (sel which i1 i2 i3 <> None ->
           base_has_invariants w (cd_bases d) = true \/ exists b, In b (cd_bases d) /\ class_inv w b which <> None)
   else i1 = None /\ i2 = None /\ i3 = None) ->
  triple_ok (rest, i1, i2, i3).
Proof.
  intros Hwf H. destruct (is_meta w d); [|destruct H as (-> & -> & ->); exact I].
  assert (Up : forall which, sel which i1 i2 i3 <> None -> base_has_invariants w (cd_bases d) = true).
  { intros which Hs. destruct (H which) as [_ Hsome]. destruct (Hsome Hs) as [Hb|(b & Hbin & Hc)]; [exact Hb|].
    apply (bhi_true w (cd_bases d) b Hbin).
    destruct (class_inv w b which) as [r|] eqn:Ec; [|congruence].
    rewrite class_inv_v in Ec. destruct (nth_error (inv_view w) b) as [vb|] eqn:Eb; [|discriminate].
    destruct (vlookup_some _ _ _ _ Ec) as (j & vj & Hin & Hn & Hs').
    destruct (base_shows_inv (inv_view w) b vb j vj which r Hwf Eb Hin Hn Hs') as (r' & Hr').
    rewrite class_inv_v, Eb, Hr'. discriminate. }
  destruct (base_has_invariants w (cd_bases d)) eqn:Eb.
  - (* a base shows a list: the class gets all three *)
    destruct i1 as [a|]; [|destruct (H LInv) as [Hn _]; cbn in Hn; specialize (Hn eq_refl); discriminate].
    destruct i2 as [b|]; [|destruct (H LCall) as [Hn _]; cbn in Hn; specialize (Hn eq_refl); discriminate].
    destruct i3 as [c|]; [|destruct (H LSet) as [Hn _]; cbn in Hn; specialize (Hn eq_refl); discriminate].
    exact I.
  - destruct i1 as [a|]; [pose proof (Up LInv) as U; cbn in U; specialize (U ltac:(discriminate)); discriminate|].
    destruct i2 as [b|]; [pose proof (Up LCall) as U; cbn in U; specialize (U ltac:(discriminate)); discriminate|].
    destruct i3 as [c|]; [pose proof (Up LSet) as U; cbn in U; specialize (U ltac:(discriminate)); discriminate|].
    exact I.
Qed.

Lemma WF_define_class_pre w d w5 k : WF w -> define_class_pre w d = Ok (w5, k) -> WF w5.
Proof.
  intros Hwf Hd.
  destruct (define_class_pre_shape w d w5 k Hd) as (Hk & Hlive & rest & i1 & i2 & i3 & Hv & Hc & Hmeta).
  assert (Hlen : List.length (inv_view w) = k) by (unfold inv_view; rewrite map_length; symmetry; exact Hk).
  unfold WF. rewrite Hv. intros k' v Hn.
  assert (Old : forall j vj, nth_error (inv_view w) j = Some vj -> vmro vj <> [] ->
                j < List.length (inv_view w ++ [(k :: rest, i1, i2, i3)]) /\
                exists vj', nth_error (inv_view w ++ [(k :: rest, i1, i2, i3)]) j = Some vj' /\
                            (match vj' with (m0, _, _, _) => m0 <> [] end)).
  { intros j vj Hj Hne. assert (Hl : j < List.length (inv_view w)) by (apply nth_error_Some; congruence).
    rewrite app_length. cbn. split; [lia|]. exists vj. split; [rewrite nth_error_app1 by exact Hl; exact Hj|].
    destruct vj as [[[mj aj] bj] cj]. exact Hne. }
  destruct (Nat.lt_ge_cases k' (List.length (inv_view w))) as [Hl|Hl].
  - rewrite nth_error_app1 in Hn by exact Hl. destruct (Hwf k' v Hn) as (A & B & C). split; [exact A|]. split; [exact B|].
    destruct v as [[[m a] b] c]. intros j Hj. destruct (C j Hj) as (Hjl & vj & Hnj & Hne).
    apply (Old j vj Hnj). destruct vj as [[[mj aj] bj] cj]. exact Hne.
  - rewrite nth_error_app2 in Hn by exact Hl. destruct (k' - List.length (inv_view w)) as [|n] eqn:E; cbn in Hn; [|destruct n; discriminate].
    injection Hn as <-. assert (k' = k) by lia. subst k'.
    split; [exact (triple_of_new w d (k :: rest) i1 i2 i3 Hwf Hmeta)|]. split; [right; exists rest; reflexivity|].
    intros j [<-|Hj].
    + rewrite app_length. cbn. split; [lia|]. exists (k :: rest, i1, i2, i3).
      split; [rewrite nth_error_app2 by lia; rewrite Hlen, Nat.sub_diag; reflexivity|discriminate].
    + destruct (rest_valid w (cd_bases d) rest Hwf Hlive Hc j Hj) as (Hjl & vj & Hnj & Hne). exact (Old j vj Hnj Hne).
Qed.

Theorem WF_step w op w' : WF w -> step_def w op = Ok w' -> WF w'.
Proof.
  intros Hwf H. destruct op as [m|d|k name dc]; cbn [step_def] in H.
  - destruct (define_function w (md_sig m) (md_async m) (md_decos m)) as [[w1 f]|e] eqn:Df; cbn [bind fst snd] in H; [|discriminate].
    injection H as <-.
    assert (Fc0 : FreshClosed w w) by (intros f0 fo Hf Hg; apply get_func_bound in Hg; lia).
    destruct (define_function_good w w _ _ _ w1 f (Keeps_refl w) Fc0 Df) as (K1 & _).
    eapply WF_view; [|exact Hwf]. unfold inv_view. cbn [w_classes]. rewrite (Keeps_classes w w1 K1). reflexivity.
  - rewrite define_class_split in H. destruct (define_class_pre w d) as [[w5 k]|e] eqn:P; [|discriminate]. injection H as <-.
    apply WF_apply_invariants. exact (WF_define_class_pre w d w5 k Hwf P).
  - destruct (negb (is_live w k)); [discriminate|].
    destruct (class_getattr w k name) as [[kd f|g s dd|n]|]; try discriminate. destruct kd; try discriminate.
    destruct (apply_deco w f dc) as [[w1 f1]|e] eqn:A; cbn [bind fst snd] in H; [|discriminate]. injection H as <-.
    eapply WF_view; [|exact Hwf]. rewrite inv_view_class_ns_set. apply inv_view_same_classes. symmetry.
    exact (apply_deco_classes _ _ _ _ _ A).
Qed.

Lemma WF_fail w op : WF w -> WF (fail_def w op).
Proof.
  intro H. destruct op as [m|d|k name dc]; cbn [fail_def]; [exact H| |exact H].
  unfold WF, inv_view. cbn [w_classes]. rewrite map_app. cbn [map dead_class co_mro co_inv co_inv_call co_inv_set]. apply WFv_app_dead. exact H.
Qed.

(** every world a history of definitions reaches *)
Theorem WF_reachable : forall ops w, WF w -> WF (fst (run_defs w ops)).
Proof.
  induction ops as [|op rest IH]; intros w H; cbn [run_defs]; [exact H|].
  destruct (step_def w op) as [w'|e] eqn:S.
  - specialize (IH w' (WF_step w op w' H S)). destruct (run_defs w' rest). exact IH.
  - specialize (IH (fail_def w op) (WF_fail w op H)). destruct (run_defs (fail_def w op) rest). exact IH.
Qed.

(** ** the frame theorem for class statements, without a hypothesis, in reachable worlds *)
Theorem define_class_frame_meta w d w' :
  WF w -> is_meta w d = true -> define_class w d = Ok w' -> KeepsC w w'.
Proof.
  intros Hwf Hm H. apply (define_class_frame w d w' H). intros w5 k P. exact (own_lists_of_meta_class w d w5 k Hwf P Hm).
Qed.

Theorem define_class_frame_reachable ops d w' :
  let w := fst (run_defs empty_world ops) in
  is_meta w d = true -> define_class w d = Ok w' -> KeepsC w w'.
Proof. intros w Hm H. apply (define_class_frame_meta w d w'); [apply WF_reachable; exact WF_empty|exact Hm|exact H]. Qed.
