(** Soundness of the re-evaluator on *all* conditions, comprehensions included.

    [ExprRefine.v] shows that on comprehension-free conditions the re-evaluator reproduces Python's
    evaluation exactly.  With comprehensions the re-evaluator does more than Python: it visits the
    parts of a comprehension on their own (this can fail - D12b - and it records values for nodes
    *inside* the comprehension's scope) and then re-compiles the whole.  The theorem here: for every
    condition, under every data model, *whenever the re-evaluator returns*, it returns Python's value,
    ends in Python's tables, and its record - the nodes inside comprehension scopes left out - is
    Python's log node by node, value by value, the record of a failing [all(<generator>)] carrying
    the counterexample in place of [False]. *)
From Coq Require Import List String ZArith Bool Arith Lia.
From ICV Require Import Expr Message ExprRefine ExprRange.

Import ListNotations.
Open Scope string_scope.
Open Scope list_scope.

Section Sound.
Variable P : prims.
(** which node numbers lie inside the scope of a comprehension, for the whole condition *)
Variable G : nat -> bool.

Definition memb (j : nat) (l : list nat) : bool := existsb (Nat.eqb j) l.
Definition AgreesOn (lo hi : nat) (L : list nat) : Prop := forall j, lo <= j < hi -> G j = memb j L.

(** a record of the re-evaluator against Python's: the same node and the same value - or, for a failing
    [all(<generator>)], the counterexample in place of the value *)
Definition rec_ok (r e : nat * val) : Prop :=
  fst r = fst e /\ (snd r = snd e \/ exists x inp, snd r = VAllFail x inp).
Definition outer (l : log) : log := filter (fun p => negb (G (fst p))) l.
Definition Sim (s : gst val) (t : gst rval) : Prop :=
  fst t = up (fst s) /\ Forall2 rec_ok (outer (snd t)) (snd s).

Lemma memb_app j a b : memb j (a ++ b) = memb j a || memb j b.
Proof. unfold memb. apply existsb_app. Qed.

Lemma memb_false j l : (forall x, In x l -> x <> j) -> memb j l = false.
Proof.
  intro H. unfold memb. destruct (existsb (Nat.eqb j) l) eqn:E; [|reflexivity].
  apply existsb_exists in E as (x & Hin & Hx). apply Nat.eqb_eq in Hx. subst x. exfalso. exact (H j Hin eq_refl).
Qed.

Lemma memb_true j l : In j l -> memb j l = true.
Proof. intro H. unfold memb. apply existsb_exists. exists j. split; [exact H|apply Nat.eqb_refl]. Qed.

Lemma outer_app a b : outer (a ++ b) = outer a ++ outer b.
Proof. unfold outer. apply filter_app. Qed.

Lemma Sim_record i v s t : G i = false -> Sim s t ->
  Sim (fst s, snd s ++ [(i, v)]) (fst t, snd t ++ [(i, v)]).
Proof.
  intros Hg [He Hl]. split; [exact He|]. cbn [snd]. rewrite outer_app. apply Forall2_app; [exact Hl|].
  unfold outer. cbn. rewrite Hg. cbn. constructor; [|constructor]. split; [reflexivity|left; reflexivity].
Qed.

Lemma Sim_record_allfail i v x inp s t : G i = false -> Sim s t ->
  Sim (fst s, snd s ++ [(i, v)]) (fst t, snd t ++ [(i, VAllFail x inp)]).
Proof.
  intros Hg [He Hl]. split; [exact He|]. cbn [snd]. rewrite outer_app. apply Forall2_app; [exact Hl|].
  unfold outer. cbn. rewrite Hg. cbn. constructor; [|constructor]. split; [reflexivity|right; exists x, inp; reflexivity].
Qed.

(** records of nodes inside a comprehension do not count *)
Lemma Sim_inner_ext lo hi s (t t' : gst rval) m :
  Sim s t -> Ext lo hi t t' -> (forall j, lo <= j < hi -> G j = true) -> m = fst t -> Sim s (m, snd t').
Proof.
  intros [He Hl] (ext & Hx & Hf) Hg ->. split; [exact He|]. cbn [snd]. rewrite Hx, outer_app.
  assert (E : outer ext = []).
  { clear Hx. unfold outer. induction ext as [|p r IH]; [reflexivity|]. inversion Hf as [|? ? Hp Hr]; subst. cbn.
    rewrite (Hg _ Hp). cbn. apply IH. exact Hr. }
  rewrite E, app_nil_r. exact Hl.
Qed.

Lemma Sim_env s t : Sim s t -> fst t = up (fst s).
Proof. intros [H _]. exact H. Qed.

Lemma Sim_put s t m : Sim s t -> Sim (m, snd s) (up m, snd t).
Proof. intros [_ H]. split; [reflexivity|exact H]. Qed.

(** the well-formedness the theorem needs: [all(<generator expression>)] is called without keyword arguments
    (Python rejects them; the re-evaluator does not even look at them) *)
Fixpoint wf (e : expr) : bool :=
  match e with
  | EConst _ | EName _ | EOmit => true
  | EAttr e1 _ | EStar e1 | EUn _ e1 | ENamed _ e1 => wf e1
  | ESub a b | ESlice a b | EBin _ a b => wf a && wf b
  | ECall f xs ks =>
      wf f && wf_l xs && wf_k ks
      && match xs, ks with
         | ECons (EComp KGen _ _ _) ENil, KCons _ _ _ => false
         | _, _ => true
         end
  | EBool _ es | EList es | ETuple es => wf_l es
  | ECmp l cs => wf l && wf_c cs
  | EIf a b c => wf a && wf b && wf c
  | EFStr ps => wf_p ps
  | EDict ds => wf_d ds
  | EComp _ _ _ _ => true          (* the parts of a comprehension are not compared *)
  end
with wf_l (es : exprs) : bool := match es with ENil => true | ECons e r => wf e && wf_l r end
with wf_k (ks : kwds) : bool := match ks with KNil => true | KCons _ e r => wf e && wf_k r end
with wf_c (cs : cmps) : bool := match cs with CNil => true | CCons _ e r => wf e && wf_c r end
with wf_p (ps : parts) : bool :=
  match ps with PNil => true | PLit _ r => wf_p r | PFmt e _ r => wf e && wf_p r end
with wf_d (ds : dpairs) : bool :=
  match ds with DNil => true | DCons k v r => wf k && wf v && wf_d r | DStar e r => wf e && wf_d r end.


(** ** the statement, by syntactic category *)
Definition Se (e : expr) : Prop :=
  wf e = true -> forall i, AgreesOn i (i + size e) (inner_nodes i e) ->
  forall s t v s' x t', Sim s t -> ev P i e s = Ok (v, s') -> rc P i e t = Ok (x, t') ->
  x = Some v /\ Sim s' t'.
Definition Sl (es : exprs) : Prop :=
  wf_l es = true -> forall i, AgreesOn i (i + size_l es) (inner_l i es) ->
  (forall s t vs s' xs t', Sim s t -> ev_args P i es s = Ok (vs, s') -> rc_args P i es t = Ok (xs, t') ->
     xs = map Some vs /\ Sim s' t') /\
  (forall b s t v s' x t', Sim s t -> ev_bool P b i es s = Ok (v, s') -> rc_bool P b i es false t = Ok (x, t') ->
     x = Some v /\ Sim s' t').
Definition Sk (ks : kwds) : Prop :=
  wf_k ks = true -> forall i, AgreesOn i (i + size_k ks) (inner_k i ks) ->
  forall s t kv s' xs t', Sim s t -> ev_kwds P i ks s = Ok (kv, s') -> rc_kwds P i ks t = Ok (xs, t') ->
  xs = upk kv /\ Sim s' t'.
Definition Sc (cs : cmps) : Prop :=
  wf_c cs = true -> forall i, AgreesOn i (i + size_c cs) (inner_c i cs) ->
  forall left s t v s' result x t', Sim s t -> ev_cmps P left i cs s = Ok (v, s') -> (cs = CNil -> result = VNone) ->
  rc_cmps P left i cs false result t = Ok (x, t') -> x = Some v /\ Sim s' t'.
Definition Sp (ps : parts) : Prop :=
  wf_p ps = true -> forall i, AgreesOn i (i + size_p ps) (inner_p i ps) ->
  forall s t ss s' x t', Sim s t -> ev_parts P i ps s = Ok (ss, s') -> rc_parts P i ps t = Ok (x, t') ->
  x = Some ss /\ Sim s' t'.
Definition Sd (ds : dpairs) : Prop :=
  wf_d ds = true -> forall i, AgreesOn i (i + size_d ds) (inner_d i ds) ->
  forall s t kvs s' xs t', Sim s t -> ev_dpairs P i ds s = Ok (kvs, s') -> rc_dpairs P i ds t = Ok (xs, t') ->
  xs = upd kvs /\ Sim s' t'.

(** ** splitting the agreement over the parts of a node *)
Lemma agrees_here i n L : AgreesOn i (i + S n) L -> (forall x, In x L -> i < x) -> G i = false.
Proof.
  intros H Hl. rewrite (H i) by lia. apply memb_false. intros x Hx E. apply Hl in Hx. lia.
Qed.

Lemma agrees_left lo mid hi A B :
  AgreesOn lo hi (A ++ B) -> mid <= hi -> (forall x, In x B -> mid <= x) -> AgreesOn lo mid A.
Proof.
  intros H Hm HB j Hj. rewrite (H j) by lia. rewrite memb_app.
  rewrite (memb_false j B); [apply orb_false_r|]. intros x Hx E. apply HB in Hx. lia.
Qed.

Lemma agrees_right lo mid hi A B :
  AgreesOn lo hi (A ++ B) -> lo <= mid -> (forall x, In x A -> x < mid) -> AgreesOn mid hi B.
Proof.
  intros H Hm HA j Hj. rewrite (H j) by lia. rewrite memb_app.
  rewrite (memb_false j A); [reflexivity|]. intros x Hx E. apply HA in Hx. lia.
Qed.

Lemma agrees_shift lo lo' hi L : AgreesOn lo hi L -> lo <= lo' -> AgreesOn lo' hi L.
Proof. intros H Hl j Hj. apply H. lia. Qed.


Lemma ir_e e i j : In j (inner_nodes i e) -> i < j < i + size e.
Proof. apply inner_range_all. Qed.
Lemma ir_l es i j : In j (inner_l i es) -> i <= j < i + size_l es.
Proof. apply inner_range_all. Qed.
Lemma ir_k ks i j : In j (inner_k i ks) -> i <= j < i + size_k ks.
Proof. apply inner_range_all. Qed.
Lemma ir_c cs i j : In j (inner_c i cs) -> i <= j < i + size_c cs.
Proof. apply inner_range_all. Qed.
Lemma ir_p ps i j : In j (inner_p i ps) -> i <= j < i + size_p ps.
Proof. apply inner_range_all. Qed.
Lemma ir_d ds i j : In j (inner_d i ds) -> i <= j < i + size_d ds.
Proof. apply inner_range_all. Qed.

Lemma agrees_sub lo hi lo' hi' L : AgreesOn lo hi L -> lo <= lo' -> hi' <= hi -> AgreesOn lo' hi' L.
Proof. intros H A B j Hj. apply H. lia. Qed.

Ltac inv H := let a := fresh "a" in let s1 := fresh "s" in let E := fresh "E" in
  apply bind_ok in H; destruct H as (a & s1 & E & H).

Lemma tail_rc i r (t : gst rval) x t' :
  (@record rval i r ;;; ret (Some r)) t = Ok (x, t') -> x = Some r /\ t' = (fst t, snd t ++ [(i, r)]).
Proof. unfold bindM, record, ret. intro H. injection H as <- <-. split; reflexivity. Qed.

(** the two tails together *)
Lemma tails i r s t v s' x t' :
  G i = false -> Sim s t ->
  (record i r ;;; ret r) s = Ok (v, s') -> (@record rval i r ;;; ret (Some r)) t = Ok (x, t') ->
  x = Some v /\ Sim s' t'.
Proof.
  intros Hg Hs He Hr. apply tail_ok in He as [-> ->]. apply tail_rc in Hr as [-> ->].
  split; [reflexivity|]. apply Sim_record; assumption.
Qed.

Lemma lift_same {A} (r : res A) (s : gst val) (t : gst rval) a s1 b t1 :
  lift r s = Ok (a, s1) -> lift r t = Ok (b, t1) -> a = b /\ s1 = s /\ t1 = t.
Proof.
  intros H1 H2. apply lift_ok in H1 as [H1 ->]. apply lift_ok in H2 as [H2 ->]. rewrite H1 in H2. injection H2 as <-. auto.
Qed.


Ltac invn H a s1 E := apply bind_ok in H; destruct H as (a & s1 & E & H).
Ltac split_wf H := repeat (apply andb_prop in H; let H2 := fresh "Hw" in destruct H as [H H2]).

(** agreement for the only child of a node *)
Lemma agrees_child i n L : AgreesOn i (i + S n) L -> AgreesOn (S i) (S i + n) L.
Proof. intro H. eapply agrees_sub; [exact H|lia|lia]. Qed.

Ltac rng Hy := first [apply ir_e in Hy | apply ir_l in Hy | apply ir_k in Hy | apply ir_c in Hy | apply ir_p in Hy | apply ir_d in Hy].
Ltac here Ha := eapply agrees_here; [exact Ha | let y := fresh "y" in let Hy := fresh "Hy" in
                                               intros y Hy; repeat (apply in_app_or in Hy as [Hy|Hy]); rng Hy; lia].
(* the agreement for a part: [L] the inner nodes before it, [R] those after it *)
Ltac part Ha lo mid :=
  eapply agrees_sub;
  [ eapply (agrees_left lo mid); [exact Ha | lia | let y := fresh "y" in let Hy := fresh "Hy" in
                                                    intros y Hy; repeat (apply in_app_or in Hy as [Hy|Hy]); rng Hy; lia]
  | lia | lia ].
Ltac part_r Ha lo mid :=
  eapply agrees_sub;
  [ eapply (agrees_right lo mid); [exact Ha | lia | let y := fresh "y" in let Hy := fresh "Hy" in
                                                     intros y Hy; repeat (apply in_app_or in Hy as [Hy|Hy]); rng Hy; lia]
  | lia | lia ].

Definition trace_all (i : nat) (f g elt : expr) (gs : gens) (fv : val) : R rval :=
  a1 <- rc P (S i + size f) g ;;
  match a1 with
  | None => ph
  | Some _ =>
      a2 <- rc P (S i + size f) g ;;
      match a2 with
      | None => ph
      | Some gv =>
          r <- lift (p_call P fv [gv] []) ;;
          t <- truthM P r ;;
          if t then record i r ;;; ret (Some r) else
          m <- get_env ;;
          match down m with
          | None => fail Unsupported
          | Some m' =>
              ff <- lift (first_failing P elt (stored_names gs []) (ev_gens P gs m' (remove_names (stored_names gs []) m'))) ;;
              match ff with
              | Some (x', inputs) => record i (VAllFail x' inputs) ;;; ret (Some r)
              | None => fail Unsupported
              end
          end
      end
  end.

Lemma rc_call_eq i f xs ks :
  rc P i (ECall f xs ks) =
  (x <- rc P (S i) f ;;
   match x with
   | None => ph
   | Some fv =>
       if negb (p_callable P fv) then fail ValueErr else
       match xs with
       | ECons (EComp KGen elt e2 gs) ENil =>
           if negb (p_is_all P fv) then call_normal P i f xs ks fv
           else trace_all i f (EComp KGen elt e2 gs) elt gs fv
       | _ => call_normal P i f xs ks fv
       end
   end).
Proof.
  destruct xs as [|g [|g2 r]]; [reflexivity| |]; (destruct g; try reflexivity; destruct k; reflexivity).
Qed.

Theorem sound_all :
  (forall e, Se e) /\ (forall es, Sl es) /\ (forall ks, Sk ks) /\ (forall cs, Sc cs) /\ (forall ps, Sp ps) /\
  (forall ds, Sd ds) /\ (forall gs : gens, True).
Proof.
  apply expr_mutind; unfold Se, Sk, Sc, Sp, Sd; try (intros; exact I).
  - (* EConst *) intros v _ i Ha s t w s' x t' Hs He Hr. cbn [ev] in He. cbn [rc] in Hr.
    eapply tails; [|exact Hs|exact He|exact Hr]. eapply agrees_here; [exact Ha|]. cbn. contradiction.
  - (* EName *) intros id _ i Ha s t v s' x t' Hs He Hr. cbn [ev] in He. cbn [rc] in Hr.
    assert (Hg : G i = false) by (eapply agrees_here; [exact Ha|cbn; contradiction]).
    unfold bindM at 1, get_env at 1 in He. unfold bindM at 1, get_env at 1 in Hr. cbn beta iota in He, Hr.
    destruct s as [ms ls], t as [mt lt]. pose proof (Sim_env _ _ Hs) as Em. cbn [fst] in Em, He, Hr. subst mt.
    rewrite lookup_up in Hr. destruct (lookup ms id) as [w|]; cbn [option_map] in Hr.
    + eapply tails; eassumption.
    + destruct (p_builtin P id) as [w|]; [|discriminate]. eapply tails; eassumption.
  - (* EAttr *) intros e1 IH a Hw i Ha s t v s' x t' Hs He Hr. cbn [wf] in Hw. cbn [ev] in He. cbn [rc] in Hr.
    assert (Hg : G i = false) by (eapply agrees_here; [exact Ha|intros y Hy; apply ir_e in Hy; lia]).
    inv He. inv Hr.
    destruct (IH Hw (S i) (agrees_child _ _ _ Ha) _ _ _ _ _ _ Hs E E0) as [-> Hs1]. cbn beta iota in Hr.
    inv He. inv Hr. destruct (lift_same _ _ _ _ _ _ _ E1 E2) as (<- & -> & ->).
    eapply tails; eassumption.
  - (* ESub *) intros a IHa b IHb Hw i Ha s t v s' x t' Hs He Hr. cbn [wf] in Hw. split_wf Hw.
    cbn [ev] in He. cbn [rc] in Hr. cbn [inner_nodes size] in Ha.
    assert (Hg : G i = false) by here Ha.
    assert (Aa : AgreesOn (S i) (S i + size a) (inner_nodes (S i) a)) by part Ha i (S i + size a).
    assert (Ab : AgreesOn (S i + size a) (S i + size a + size b) (inner_nodes (S i + size a) b)) by part_r Ha i (S i + size a).
    inv He. inv Hr. destruct (IHa Hw _ Aa _ _ _ _ _ _ Hs E E0) as [-> Hs1].
    inv He. inv Hr. destruct (IHb Hw0 _ Ab _ _ _ _ _ _ Hs1 E1 E2) as [-> Hs2]. cbn beta iota in Hr.
    inv He. inv Hr. destruct (lift_same _ _ _ _ _ _ _ E3 E4) as (<- & -> & ->). eapply tails; eassumption.
  - (* ESlice *) intros a IHa b IHb Hw i Ha s t v s' x t' Hs He Hr. cbn [wf] in Hw. split_wf Hw.
    cbn [ev] in He. cbn [rc] in Hr. cbn [inner_nodes size] in Ha.
    assert (Hg : G i = false) by here Ha.
    assert (Aa : AgreesOn (S i) (S i + size a) (inner_nodes (S i) a)) by part Ha i (S i + size a).
    assert (Ab : AgreesOn (S i + size a) (S i + size a + size b) (inner_nodes (S i + size a) b)) by part_r Ha i (S i + size a).
    inv He. inv Hr. destruct (IHa Hw _ Aa _ _ _ _ _ _ Hs E E0) as [-> Hs1].
    inv He. inv Hr. destruct (IHb Hw0 _ Ab _ _ _ _ _ _ Hs1 E1 E2) as [-> Hs2]. cbn beta iota in Hr.
    eapply tails; eassumption.
  - (* EOmit *) intros _ i Ha s t v s' x t' Hs He Hr. cbn in He, Hr. unfold ret in He, Hr.
    injection He as <- <-. injection Hr as <- <-. auto.
  - (* ECall *) intros f IHf xs IHx ks IHk Hw i Ha s t v s' x t' Hs He Hr. cbn [wf] in Hw. split_wf Hw.
    cbn [ev] in He. rewrite rc_call_eq in Hr. cbn [inner_nodes size] in Ha.
    assert (Hg : G i = false) by here Ha.
    assert (Af : AgreesOn (S i) (S i + size f) (inner_nodes (S i) f)) by part Ha i (S i + size f).
    assert (Axk : AgreesOn (S i + size f) (S i + size f + (size_l xs + size_k ks))
                           (inner_l (S i + size f) xs ++ inner_k (S i + size f + size_l xs) ks)) by part_r Ha i (S i + size f).
    assert (Ax : AgreesOn (S i + size f) (S i + size f + size_l xs) (inner_l (S i + size f) xs))
      by part Axk (S i + size f) (S i + size f + size_l xs).
    assert (Ak : AgreesOn (S i + size f + size_l xs) (S i + size f + size_l xs + size_k ks) (inner_k (S i + size f + size_l xs) ks))
      by part_r Axk (S i + size f) (S i + size f + size_l xs).
    invn He fv1 s1 E1. invn Hr fv2 t1 F1. destruct (IHf Hw _ Af _ _ _ _ _ _ Hs E1 F1) as [-> Hs1]. cbn beta iota in Hr.
    destruct (negb (p_callable P fv1)); [discriminate|].
    destruct (IHx Hw2 _ Ax) as [IHa _].
    assert (Normal : call_normal P i f xs ks fv1 t1 = Ok (x, t') -> x = Some v /\ Sim s' t').
    { intro Hn. unfold call_normal in Hn.
      invn He av1 s2 E2. invn Hn av2 t2 F2. destruct (IHa _ _ _ _ _ _ Hs1 E2 F2) as [-> Hs2].
      invn He kv1 s3 E3. invn Hn kv2 t3 F3. destruct (IHk Hw1 _ Ak _ _ _ _ _ _ Hs2 E3 F3) as [-> Hs3].
      rewrite all_some_map, all_some_kw_up in Hn.
      invn He r1 s4 E4. invn Hn r2 t4 F4. destruct (lift_same _ _ _ _ _ _ _ E4 F4) as (<- & -> & ->).
      eapply tails; eassumption. }
    destruct xs as [|g rx]; [apply Normal; exact Hr|].
    destruct g; try (destruct rx; apply Normal; exact Hr).
    destruct k; try (destruct rx; apply Normal; exact Hr).
    destruct rx as [|gx2 rx2]; [|apply Normal; exact Hr].
    destruct (negb (p_is_all P fv1)) eqn:Eall; [apply Normal; exact Hr|].
    (* tracing: all(<generator expression>) *)
    destruct ks as [|kn ke kr]; [|cbn in Hw0; discriminate].
    set (j := S i + size f) in *. set (g := EComp KGen g1 g2 gs) in *.
    assert (Sg : forall s t v s' x t', Sim s t -> ev P j g s = Ok (v, s') -> rc P j g t = Ok (x, t') -> x = Some v /\ Sim s' t').
    { intros sa ta va sa' xa ta' Hsa Hea Hra.
      assert (Ea : ev_args P j (ECons g ENil) sa = Ok ([va], sa')).
      { change (ev_args P j (ECons g ENil)) with (v0 <- ev P j g ;; rest <- ev_args P (j + size g) ENil ;; ret (v0 :: rest)).
        rewrite (bind_eq _ _ _ _ _ Hea). reflexivity. }
      assert (Ra : rc_args P j (ECons g ENil) ta = Ok ([xa], ta')).
      { change (rc_args P j (ECons g ENil)) with (x0 <- rc P j g ;; rest <- rc_args P (j + size g) ENil ;; ret (x0 :: rest)).
        rewrite (bind_eq _ _ _ _ _ Hra). reflexivity. }
      destruct (IHa _ _ _ _ _ _ Hsa Ea Ra) as [Hx Hs']. injection Hx as ->. auto. }
    invn He av1 s2 E2.
    change (bindM (ev P j g) (fun v0 => bindM (ev_args P (j + size g) ENil) (fun rest => ret (v0 :: rest))) s1 = Ok (av1, s2)) in E2.
    invn E2 gv s2a E2a. invn E2 rest s2b E2b. cbn in E2b. unfold ret in E2b, E2. injection E2b as <- <-. injection E2 as <- <-.
    (* Python evaluates the generator expression once; it leaves the state as it was *)
    assert (Es2 : s2a = s1 /\ comp_value P g (fst s1) = Ok gv).
    { unfold g in E2a. rewrite ev_comp in E2a. destruct (comp_value P (EComp KGen g1 g2 gs) (fst s1)) as [r0|e0] eqn:Cv; [|discriminate].
      injection E2a as <- <-. rewrite app_nil_r. destruct s1 as [ms1 ls1]; split; [reflexivity|exact Cv]. }
    destruct Es2 as [-> Cv].
    assert (Eg : ev P j g s1 = Ok (gv, s1)).
    { unfold g. rewrite ev_comp. fold g. rewrite Cv, app_nil_r. destruct s1; reflexivity. }
    unfold trace_all in Hr. fold j in Hr. fold g in Hr.
    invn Hr a1 t2 F2. destruct (Sg _ _ _ _ _ _ Hs1 Eg F2) as [-> Hs2]. cbn beta iota in Hr.
    invn Hr a2 t3 F3. destruct (Sg _ _ _ _ _ _ Hs2 Eg F3) as [-> Hs3]. cbn beta iota in Hr.
    invn He kv1 s3 E3. cbn in E3. unfold ret in E3. injection E3 as <- <-.
    invn He r1 s4 E4. invn Hr r2 t4 F4. destruct (lift_same _ _ _ _ _ _ _ E4 F4) as (<- & -> & ->).
    invn Hr b1 t5 F5. unfold truthM in F5. apply lift_ok in F5 as [F5 ->].
    destruct b1.
    + eapply tails; eassumption.
    + apply tail_ok in He as [-> ->].
      invn Hr m5 t6 F6. unfold get_env in F6. injection F6 as <- <-.
      destruct (down (fst t3)) as [m'|]; [|discriminate].
      invn Hr ff t7 F7. apply lift_ok in F7 as [F7 ->].
      destruct ff as [[x' inputs]|]; [|discriminate].
      unfold bindM, record, ret in Hr. injection Hr as <- <-. split; [reflexivity|].
      apply Sim_record_allfail; assumption.
  - (* EStar *) intros e1 IH Hw i Ha s t v s' x t' Hs He Hr. cbn [wf] in Hw. cbn [ev] in He. cbn [rc] in Hr.
    cbn [inner_nodes size] in Ha. exact (IH Hw (S i) (agrees_child _ _ _ Ha) _ _ _ _ _ _ Hs He Hr).
  - (* EUn *) intros op e1 IH Hw i Ha s t v s' x t' Hs He Hr. cbn [wf] in Hw. cbn [ev] in He. cbn [rc] in Hr.
    cbn [inner_nodes size] in Ha.
    assert (Hg : G i = false) by here Ha.
    inv He. inv Hr.
    destruct (IH Hw (S i) (agrees_child _ _ _ Ha) _ _ _ _ _ _ Hs E E0) as [-> Hs1]. cbn beta iota in Hr.
    inv He. inv Hr. destruct (lift_same _ _ _ _ _ _ _ E1 E2) as (<- & -> & ->).
    eapply tails; eassumption.
  - (* EBin *) intros op a IHa b IHb Hw i Ha s t v s' x t' Hs He Hr. cbn [wf] in Hw. split_wf Hw.
    cbn [ev] in He. cbn [rc] in Hr. cbn [inner_nodes size] in Ha.
    assert (Hg : G i = false) by here Ha.
    assert (Aa : AgreesOn (S i) (S i + size a) (inner_nodes (S i) a)) by part Ha i (S i + size a).
    assert (Ab : AgreesOn (S i + size a) (S i + size a + size b) (inner_nodes (S i + size a) b)) by part_r Ha i (S i + size a).
    inv He. inv Hr. destruct (IHa Hw _ Aa _ _ _ _ _ _ Hs E E0) as [-> Hs1].
    inv He. inv Hr. destruct (IHb Hw0 _ Ab _ _ _ _ _ _ Hs1 E1 E2) as [-> Hs2]. cbn beta iota in Hr.
    inv He. inv Hr. destruct (lift_same _ _ _ _ _ _ _ E3 E4) as (<- & -> & ->). eapply tails; eassumption.
  - (* EBool *) intros b es IH Hw i Ha s t v s' x t' Hs He Hr. cbn [wf] in Hw. cbn [ev] in He. cbn [rc] in Hr.
    cbn [inner_nodes size] in Ha.
    assert (Hg : G i = false) by here Ha.
    inv He. inv Hr. destruct (IH Hw (S i) (agrees_child _ _ _ Ha)) as [_ IHb].
    destruct (IHb _ _ _ _ _ _ _ Hs E E0) as [-> Hs1]. cbn beta iota in Hr.
    eapply tails; eassumption.
  - (* ECmp *) intros l IHl cs IHc Hw i Ha s t v s' x t' Hs He Hr. cbn [wf] in Hw. split_wf Hw.
    cbn [ev] in He. cbn [rc] in Hr. cbn [inner_nodes size] in Ha.
    assert (Hg : G i = false) by here Ha.
    assert (Al : AgreesOn (S i) (S i + size l) (inner_nodes (S i) l)) by part Ha i (S i + size l).
    assert (Ac : AgreesOn (S i + size l) (S i + size l + size_c cs) (inner_c (S i + size l) cs)) by part_r Ha i (S i + size l).
    inv He. inv Hr. destruct (IHl Hw _ Al _ _ _ _ _ _ Hs E E0) as [-> Hs1]. cbn beta iota in Hr.
    inv He. inv Hr. destruct (IHc Hw0 _ Ac _ _ _ _ _ VNone _ _ Hs1 E1 (fun _ => eq_refl) E2) as [-> Hs2]. cbn beta iota in Hr.
    eapply tails; eassumption.
  - (* EIf *) intros a IHa b IHb c IHc Hw i Ha s t v s' x t' Hs He Hr. cbn [wf] in Hw. split_wf Hw.
    cbn [ev] in He. cbn [rc] in Hr. cbn [inner_nodes size] in Ha.
    assert (Hg : G i = false) by here Ha.
    assert (Aa : AgreesOn (S i) (S i + size a) (inner_nodes (S i) a)) by part Ha i (S i + size a).
    assert (Abc : AgreesOn (S i + size a) (S i + size a + (size b + size c))
                           (inner_nodes (S i + size a) b ++ inner_nodes (S i + size a + size b) c)) by part_r Ha i (S i + size a).
    assert (Ab : AgreesOn (S i + size a) (S i + size a + size b) (inner_nodes (S i + size a) b))
      by part Abc (S i + size a) (S i + size a + size b).
    assert (Ac : AgreesOn (S i + size a + size b) (S i + size a + size b + size c) (inner_nodes (S i + size a + size b) c))
      by part_r Abc (S i + size a) (S i + size a + size b).
    inv He. inv Hr. destruct (IHa Hw _ Aa _ _ _ _ _ _ Hs E E0) as [-> Hs1]. cbn beta iota in Hr.
    inv He. inv Hr. unfold truthM in E1, E2. destruct (lift_same _ _ _ _ _ _ _ E1 E2) as (<- & -> & ->).
    inv He. inv Hr. destruct a1.
    + destruct (IHb Hw1 _ Ab _ _ _ _ _ _ Hs1 E3 E4) as [-> Hs2]. cbn beta iota in Hr. eapply tails; eassumption.
    + destruct (IHc Hw0 _ Ac _ _ _ _ _ _ Hs1 E3 E4) as [-> Hs2]. cbn beta iota in Hr. eapply tails; eassumption.
  - (* ENamed *) intros tg e1 IH Hw i Ha s t v s' x t' Hs He Hr. cbn [wf] in Hw. cbn [ev] in He. cbn [rc] in Hr.
    cbn [inner_nodes size] in Ha.
    assert (Hg : G i = false) by here Ha.
    inv He. inv Hr.
    destruct (IH Hw (S i) (agrees_child _ _ _ Ha) _ _ _ _ _ _ Hs E E0) as [-> Hs1]. cbn beta iota in Hr.
    destruct s0 as [m0 l0], s1 as [m1 l1]. pose proof (Sim_env _ _ Hs1) as Em. cbn [fst] in Em. subst m1.
    unfold bindM, record, get_env, put_env, ret in He, Hr. cbn in He, Hr.
    injection He as <- <-. injection Hr as <- <-. split; [reflexivity|].
    destruct Hs1 as [_ Hl]. cbn [snd] in Hl. split.
    + cbn [fst]. apply set_var_up.
    + cbn [snd]. rewrite outer_app. apply Forall2_app; [exact Hl|]. unfold outer. cbn. rewrite Hg. cbn.
      constructor; [|constructor]. split; [reflexivity|left; reflexivity].
  - (* EFStr *) intros ps IH Hw i Ha s t v s' x t' Hs He Hr. cbn [wf] in Hw. cbn [ev] in He. cbn [rc] in Hr.
    cbn [inner_nodes size] in Ha.
    assert (Hg : G i = false) by here Ha.
    inv He. inv Hr. destruct (IH Hw (S i) (agrees_child _ _ _ Ha) _ _ _ _ _ _ Hs E E0) as [-> Hs1]. cbn beta iota in Hr.
    eapply tails; eassumption.
  - (* EList *) intros es IH Hw i Ha s t v s' x t' Hs He Hr. cbn [wf] in Hw. cbn [ev] in He. cbn [rc] in Hr.
    cbn [inner_nodes size] in Ha.
    assert (Hg : G i = false) by here Ha.
    inv He. inv Hr. destruct (IH Hw (S i) (agrees_child _ _ _ Ha)) as [IHa _].
    destruct (IHa _ _ _ _ _ _ Hs E E0) as [-> Hs1]. cbn beta iota in Hr. rewrite all_some_map in Hr.
    eapply tails; eassumption.
  - (* ETuple *) intros es IH Hw i Ha s t v s' x t' Hs He Hr. cbn [wf] in Hw. cbn [ev] in He. cbn [rc] in Hr.
    cbn [inner_nodes size] in Ha.
    assert (Hg : G i = false) by here Ha.
    inv He. inv Hr. destruct (IH Hw (S i) (agrees_child _ _ _ Ha)) as [IHa _].
    destruct (IHa _ _ _ _ _ _ Hs E E0) as [-> Hs1]. cbn beta iota in Hr. rewrite all_some_map in Hr.
    eapply tails; eassumption.
  - (* EDict *) intros ds IH Hw i Ha s t v s' x t' Hs He Hr. cbn [wf] in Hw. cbn [ev] in He. cbn [rc] in Hr.
    cbn [inner_nodes size] in Ha.
    assert (Hg : G i = false) by here Ha.
    inv He. inv Hr. destruct (IH Hw (S i) (agrees_child _ _ _ Ha) _ _ _ _ _ _ Hs E E0) as [-> Hs1].
    cbn beta iota in Hr. rewrite dict_items_upd in Hr.
    inv He. inv Hr. destruct (lift_same _ _ _ _ _ _ _ E1 E2) as (<- & -> & ->). eapply tails; eassumption.
  - (* EComp *) intros k a _ b _ gs _ Hw i Ha s t v s' x t' Hs He Hr.
    rewrite ev_comp in He. cbn [rc] in Hr. cbn [inner_nodes size] in Ha.
    assert (Hg : G i = false).
    { eapply agrees_here; [exact Ha|]. intros y Hy. unfold range in Hy. apply in_seq in Hy. lia. }
    assert (Hin : forall j, S i <= j < i + S (size a + size b + size_g gs) -> G j = true).
    { intros j Hj. rewrite (Ha j) by lia. apply memb_true. unfold range. apply in_seq. lia. }
    destruct s as [ms ls], t as [mt lt]. pose proof (Sim_env _ _ Hs) as Em. cbn [fst] in Em. subst mt.
    cbn [fst snd] in He.
    invn Hr m0 t0 E0. unfold get_env in E0. injection E0 as <- <-.
    invn Hr u1 t1 E1. assert (L1 : snd t1 = lt).
    { unfold mark_targets, bindM, get_env, put_env in E1. cbn in E1. injection E1 as _ <-. reflexivity. }
    invn Hr u2 t2 E2.
    assert (B2 : Ext (S i) (i + S (size a + size b + size_g gs)) t1 t2).
    { destruct (rc_range_all P) as (Be_ & _ & _ & _ & _ & _ & Bg_).
      refine (Bounded_speculative _ _ _ _ _ _ _ E2).
      apply Bounded_bind; [eapply Bounded_weaken; [apply (Be_ a (S i))|lia|lia]|intros _].
      apply Bounded_bind; [eapply Bounded_weaken; [apply (Be_ b (S i + size a))|lia|lia]|intros _].
      eapply Bounded_weaken; [apply (Bg_ gs (S i + size a + size b))|lia|lia]. }
    invn Hr u3 t3 E3. unfold put_env in E3. injection E3 as _ <-.
    rewrite down_up in Hr.
    assert (Hs2 : Sim (ms, ls) (up ms, snd t2)).
    { eapply (Sim_inner_ext (S i) (i + S (size a + size b + size_g gs)) (ms, ls) (up ms, lt) t2 (up ms) Hs); [|exact Hin|reflexivity].
      destruct B2 as (ext & Hx & Hf). exists ext. split; [|exact Hf]. cbn [snd]. rewrite Hx, L1. reflexivity. }
    destruct (comp_value P (EComp k a b gs) ms) as [r|e] eqn:Cv; [|discriminate]. injection He as <- <-.
    invn Hr r' t4 E4. apply lift_ok in E4 as [E4 ->]. injection E4 as <-.
    destruct k.
    + apply tail_rc in Hr as [-> ->]. split; [reflexivity|]. cbn [fst snd].
      exact (Sim_record i r (ms, ls) (up ms, snd t2) Hg Hs2).
    + unfold ret in Hr. injection Hr as <- <-. split; [reflexivity|]. rewrite app_nil_r. exact Hs2.
    + apply tail_rc in Hr as [-> ->]. split; [reflexivity|]. cbn [fst snd].
      exact (Sim_record i r (ms, ls) (up ms, snd t2) Hg Hs2).
  - (* ENil *) intros _ i Ha. split.
    + intros s t vs s' xs t' Hs He Hr. cbn in He, Hr. unfold ret in He, Hr. injection He as <- <-. injection Hr as <- <-. auto.
    + intros b s t v s' x t' Hs He Hr. cbn in He, Hr. unfold ret in He, Hr. injection He as <- <-. injection Hr as <- <-. auto.
  - (* ECons *) intros e IHe r IHr Hw i Ha. cbn [wf_l] in Hw. split_wf Hw. cbn [inner_l size_l] in Ha.
    assert (Ae : AgreesOn i (i + size e) (inner_nodes i e)) by part Ha i (i + size e).
    assert (Ar : AgreesOn (i + size e) (i + size e + size_l r) (inner_l (i + size e) r)) by part_r Ha i (i + size e).
    destruct (IHr Hw0 _ Ar) as [IHa IHb]. split.
    + intros s t vs s' xs t' Hs He Hr.
      assert (Star : forall e1, e = EStar e1 -> xs = map Some vs /\ Sim s' t').
      { intros e1 ->. cbn [ev_args] in He. cbn [rc_args] in Hr.
        change (ev P (S i) e1) with (ev P i (EStar e1)) in He. change (rc P (S i) e1) with (rc P i (EStar e1)) in Hr.
        replace (S i + size e1) with (i + size (EStar e1)) in He, Hr by (cbn [size]; lia).
        invn He v1 s1 E1. invn Hr x1 t1 F1. destruct (IHe Hw _ Ae _ _ _ _ _ _ Hs E1 F1) as [-> Hs1]. cbn beta iota in Hr.
        invn He it1 s2 E2. invn Hr it2 t2 F2. destruct (lift_same _ _ _ _ _ _ _ E2 F2) as (<- & -> & ->).
        invn He xs1 s3 E3. invn Hr xs2 t3 F3. destruct (lift_same _ _ _ _ _ _ _ E3 F3) as (<- & -> & ->).
        invn He rest1 s4 E4. invn Hr rest2 t4 F4. destruct (IHa _ _ _ _ _ _ Hs1 E4 F4) as [-> Hs4].
        unfold ret in He, Hr. injection He as <- <-. injection Hr as <- <-. split; [rewrite map_app; reflexivity|exact Hs4]. }
      assert (Plain : (forall e1, e <> EStar e1) -> xs = map Some vs /\ Sim s' t').
      { intro Hn.
        assert (Ev : ev_args P i (ECons e r) = (v <- ev P i e ;; rest <- ev_args P (i + size e) r ;; ret (v :: rest))).
        { destruct e; try reflexivity. exfalso. eapply Hn. reflexivity. }
        assert (Rc : rc_args P i (ECons e r) = (x <- rc P i e ;; rest <- rc_args P (i + size e) r ;; ret (x :: rest))).
        { destruct e; try reflexivity. exfalso. eapply Hn. reflexivity. }
        rewrite Ev in He. rewrite Rc in Hr.
        invn He v1 s1 E1. invn Hr x1 t1 F1. destruct (IHe Hw _ Ae _ _ _ _ _ _ Hs E1 F1) as [-> Hs1].
        invn He rest1 s4 E4. invn Hr rest2 t4 F4. destruct (IHa _ _ _ _ _ _ Hs1 E4 F4) as [-> Hs4].
        unfold ret in He, Hr. injection He as <- <-. injection Hr as <- <-. split; [reflexivity|exact Hs4]. }
      destruct e; try (apply Plain; intros ? ?; discriminate). eapply Star. reflexivity.
    + intros b s t v s' x t' Hs He Hr. cbn [ev_bool] in He. cbn [rc_bool] in Hr. destruct r as [|e2 r2].
      * invn Hr x1 t1 F1. destruct (IHe Hw _ Ae _ _ _ _ _ _ Hs He F1) as [-> Hs1].
        unfold ret in Hr. injection Hr as <- <-. auto.
      * invn He v1 s1 E1. invn Hr x1 t1 F1. destruct (IHe Hw _ Ae _ _ _ _ _ _ Hs E1 F1) as [-> Hs1]. cbn beta iota in Hr.
        invn He b1 s2 E2. invn Hr b2 t2 F2. unfold truthM in E2, F2. destruct (lift_same _ _ _ _ _ _ _ E2 F2) as (<- & -> & ->).
        destruct (Bool.eqb b1 b).
        -- exact (IHb _ _ _ _ _ _ _ Hs1 He Hr).
        -- unfold ret in He, Hr. injection He as <- <-. injection Hr as <- <-. auto.
  - (* KNil *) intros _ i Ha s t kv s' xs t' Hs He Hr. cbn in He, Hr. unfold ret in He, Hr.
    injection He as <- <-. injection Hr as <- <-. auto.
  - (* KCons *) intros n e IHe r IHr Hw i Ha s t kv s' xs t' Hs He Hr. cbn [wf_k] in Hw. split_wf Hw.
    cbn [inner_k size_k] in Ha.
    assert (Ae : AgreesOn i (i + size e) (inner_nodes i e)) by part Ha i (i + size e).
    assert (Ar : AgreesOn (i + size e) (i + size e + size_k r) (inner_k (i + size e) r)) by part_r Ha i (i + size e).
    destruct n as [n|]; cbn [ev_kwds] in He; cbn [rc_kwds] in Hr.
    + invn He v1 s1 E1. invn Hr x1 t1 F1. destruct (IHe Hw _ Ae _ _ _ _ _ _ Hs E1 F1) as [-> Hs1].
      invn He rest1 s2 E2. invn Hr rest2 t2 F2. destruct (IHr Hw0 _ Ar _ _ _ _ _ _ Hs1 E2 F2) as [-> Hs2].
      unfold ret in He, Hr. injection He as <- <-. injection Hr as <- <-. auto.
    + invn He v1 s1 E1. invn Hr x1 t1 F1. destruct (IHe Hw _ Ae _ _ _ _ _ _ Hs E1 F1) as [-> Hs1]. cbn beta iota in Hr.
      invn He kv1 s2 E2. invn Hr kv2 t2 F2. destruct (lift_same _ _ _ _ _ _ _ E2 F2) as (<- & -> & ->).
      invn He rest1 s3 E3. invn Hr rest2 t3 F3. destruct (IHr Hw0 _ Ar _ _ _ _ _ _ Hs1 E3 F3) as [-> Hs3].
      unfold ret in He, Hr. injection He as <- <-. injection Hr as <- <-. split; [|exact Hs3].
      unfold upk. rewrite map_app. reflexivity.
  - (* CNil *) intros _ i Ha left s t v s' result x t' Hs He Hres Hr. cbn in He, Hr. unfold ret in He, Hr.
    injection He as <- <-. injection Hr as <- <-. rewrite (Hres eq_refl). auto.
  - (* CCons *) intros op e IHe r IHr Hw i Ha left s t v s' result x t' Hs He _ Hr. cbn [wf_c] in Hw. split_wf Hw.
    cbn [inner_c size_c] in Ha.
    assert (Ae : AgreesOn i (i + size e) (inner_nodes i e)) by part Ha i (i + size e).
    assert (Ar : AgreesOn (i + size e) (i + size e + size_c r) (inner_c (i + size e) r)) by part_r Ha i (i + size e).
    cbn [ev_cmps] in He. cbn [rc_cmps] in Hr.
    invn He v1 s1 E1. invn Hr x1 t1 F1. destruct (IHe Hw _ Ae _ _ _ _ _ _ Hs E1 F1) as [-> Hs1]. cbn beta iota in Hr.
    invn He z1 s2 E2. invn Hr z2 t2 F2. destruct (lift_same _ _ _ _ _ _ _ E2 F2) as (<- & -> & ->).
    destruct r as [|op2 e2 r2].
    + unfold ret in He, Hr. injection He as <- <-. injection Hr as <- <-. auto.
    + invn He b1 s3 E3. invn Hr b2 t3 F3. unfold truthM in E3, F3. destruct (lift_same _ _ _ _ _ _ _ E3 F3) as (<- & -> & ->).
      destruct b1.
      * refine (IHr Hw0 _ Ar _ _ _ _ _ _ _ _ Hs1 He _ Hr). discriminate.
      * unfold ret in He, Hr. injection He as <- <-. injection Hr as <- <-. auto.
  - (* PNil *) intros _ i Ha s t ss s' x t' Hs He Hr. cbn in He, Hr. unfold ret in He, Hr.
    injection He as <- <-. injection Hr as <- <-. auto.
  - (* PLit *) intros str r IHr Hw i Ha s t ss s' x t' Hs He Hr. cbn [wf_p] in Hw. cbn [inner_p size_p] in Ha.
    cbn [ev_parts] in He. cbn [rc_parts] in Hr.
    invn He rest1 s1 E1. invn Hr rest2 t1 F1. destruct (IHr Hw _ Ha _ _ _ _ _ _ Hs E1 F1) as [-> Hs1].
    unfold ret in He, Hr. injection He as <- <-. injection Hr as <- <-. auto.
  - (* PFmt *) intros e IHe cv r IHr Hw i Ha s t ss s' x t' Hs He Hr. cbn [wf_p] in Hw. split_wf Hw.
    cbn [inner_p size_p] in Ha.
    assert (Ae : AgreesOn i (i + size e) (inner_nodes i e)) by part Ha i (i + size e).
    assert (Ar : AgreesOn (i + size e) (i + size e + size_p r) (inner_p (i + size e) r)) by part_r Ha i (i + size e).
    cbn [ev_parts] in He. cbn [rc_parts] in Hr.
    invn He v1 s1 E1. invn Hr x1 t1 F1. destruct (IHe Hw _ Ae _ _ _ _ _ _ Hs E1 F1) as [-> Hs1]. cbn beta iota in Hr.
    invn He f1 s2 E2. invn Hr f2 t2 F2. destruct (lift_same _ _ _ _ _ _ _ E2 F2) as (<- & -> & ->).
    invn He rest1 s3 E3. invn Hr rest2 t3 F3. destruct (IHr Hw0 _ Ar _ _ _ _ _ _ Hs1 E3 F3) as [-> Hs3].
    unfold ret in He, Hr. injection He as <- <-. injection Hr as <- <-. auto.
  - (* DNil *) intros _ i Ha s t kvs s' xs t' Hs He Hr. cbn in He, Hr. unfold ret in He, Hr.
    injection He as <- <-. injection Hr as <- <-. auto.
  - (* DCons *) intros k IHk v IHv r IHr Hw i Ha s t kvs s' xs t' Hs He Hr. cbn [wf_d] in Hw. split_wf Hw.
    cbn [inner_d size_d] in Ha.
    assert (Ak : AgreesOn i (i + size k) (inner_nodes i k)) by part Ha i (i + size k).
    assert (Avr : AgreesOn (i + size k) (i + size k + (size v + size_d r))
                           (inner_nodes (i + size k) v ++ inner_d (i + size k + size v) r)) by part_r Ha i (i + size k).
    assert (Av : AgreesOn (i + size k) (i + size k + size v) (inner_nodes (i + size k) v))
      by part Avr (i + size k) (i + size k + size v).
    assert (Ar : AgreesOn (i + size k + size v) (i + size k + size v + size_d r) (inner_d (i + size k + size v) r))
      by part_r Avr (i + size k) (i + size k + size v).
    cbn [ev_dpairs] in He. cbn [rc_dpairs] in Hr.
    invn He k1 s1 E1. invn Hr k2 t1 F1. destruct (IHk Hw _ Ak _ _ _ _ _ _ Hs E1 F1) as [-> Hs1].
    invn He v1 s2 E2. invn Hr v2 t2 F2. destruct (IHv Hw1 _ Av _ _ _ _ _ _ Hs1 E2 F2) as [-> Hs2].
    invn He rest1 s3 E3. invn Hr rest2 t3 F3. destruct (IHr Hw0 _ Ar _ _ _ _ _ _ Hs2 E3 F3) as [-> Hs3].
    unfold ret in He, Hr. injection He as <- <-. injection Hr as <- <-. auto.
  - (* DStar *) intros e IHe r IHr Hw i Ha s t kvs s' xs t' Hs He Hr. cbn [wf_d] in Hw. split_wf Hw.
    cbn [inner_d size_d] in Ha.
    assert (Ae : AgreesOn i (i + size e) (inner_nodes i e)) by part Ha i (i + size e).
    assert (Ar : AgreesOn (i + size e) (i + size e + size_d r) (inner_d (i + size e) r)) by part_r Ha i (i + size e).
    cbn [ev_dpairs] in He. cbn [rc_dpairs] in Hr.
    invn He v1 s1 E1. invn Hr x1 t1 F1. destruct (IHe Hw _ Ae _ _ _ _ _ _ Hs E1 F1) as [-> Hs1]. cbn beta iota in Hr.
    invn He kv1 s2 E2. invn Hr kv2 t2 F2. destruct (lift_same _ _ _ _ _ _ _ E2 F2) as (<- & -> & ->).
    invn He rest1 s3 E3. invn Hr rest2 t3 F3. destruct (IHr Hw0 _ Ar _ _ _ _ _ _ Hs1 E3 F3) as [-> Hs3].
    unfold ret in He, Hr. injection He as <- <-. injection Hr as <- <-. split; [|exact Hs3].
    unfold upd. rewrite map_app. reflexivity.
Qed.
End Sound.

(** ** the theorem for whole conditions *)
Definition inner_of (e : expr) (j : nat) : bool := existsb (Nat.eqb j) (inner_nodes 0 e).

Theorem rc_sound (P : prims) :
  forall e, wf e = true ->
  forall m v m' l x mr lr,
  ev P 0 e (m, []) = Ok (v, (m', l)) -> rc P 0 e (up m, []) = Ok (x, (mr, lr)) ->
  x = Some v /\ mr = up m' /\
  Forall2 rec_ok (filter (fun p => negb (inner_of e (fst p))) lr) l.
Proof.
  intros e Hw m v m' l x mr lr He Hr.
  destruct (sound_all P (inner_of e)) as (Hs & _).
  assert (Ha : AgreesOn (inner_of e) 0 (0 + size e) (inner_nodes 0 e)) by (intros j _; reflexivity).
  assert (S0 : Sim (inner_of e) (m, []) (up m, [])) by (split; [reflexivity|constructor]).
  destruct (Hs e Hw 0 Ha _ _ _ _ _ _ S0 He Hr) as [-> [Hm Hl]]. cbn [fst snd] in Hm, Hl.
  split; [reflexivity|]. split; [exact Hm|exact Hl].
Qed.

(** what is recorded for a node outside comprehension scopes was evaluated by Python, with that value (or it is the
    counterexample of a failing all()) - nothing Python's short-circuiting skipped is evaluated - and conversely *)
Lemma Forall2_in_l {A B} (R : A -> B -> Prop) l1 l2 a : Forall2 R l1 l2 -> In a l1 -> exists b, In b l2 /\ R a b.
Proof.
  induction 1 as [|x y r1 r2 Hxy _ IH]; [contradiction|]. intros [<-|Hin].
  - exists y. split; [left; reflexivity|exact Hxy].
  - destruct (IH Hin) as (b & Hb & Rb). exists b. split; [right; exact Hb|exact Rb].
Qed.
Lemma Forall2_in_r {A B} (R : A -> B -> Prop) l1 l2 b : Forall2 R l1 l2 -> In b l2 -> exists a, In a l1 /\ R a b.
Proof.
  induction 1 as [|x y r1 r2 Hxy _ IH]; [contradiction|]. intros [<-|Hin].
  - exists x. split; [left; reflexivity|exact Hxy].
  - destruct (IH Hin) as (a & Ha & Ra). exists a. split; [right; exact Ha|exact Ra].
Qed.

Theorem recorded_was_evaluated (P : prims) :
  forall e, wf e = true ->
  forall m v m' l x mr lr i w,
  ev P 0 e (m, []) = Ok (v, (m', l)) -> rc P 0 e (up m, []) = Ok (x, (mr, lr)) ->
  In (i, w) lr -> inner_of e i = false ->
  exists w', In (i, w') l /\ (w = w' \/ exists y inp, w = VAllFail y inp).
Proof.
  intros e Hw m v m' l x mr lr i w He Hr Hin Hout.
  destruct (rc_sound P e Hw _ _ _ _ _ _ _ He Hr) as (_ & _ & F).
  assert (Hf : In (i, w) (filter (fun p => negb (inner_of e (fst p))) lr)).
  { apply filter_In. split; [exact Hin|]. cbn. rewrite Hout. reflexivity. }
  destruct (Forall2_in_l _ _ _ _ F Hf) as ([i' w'] & Hb & [Hi Hv]). cbn in Hi, Hv. subst i'.
  exists w'. split; assumption.
Qed.

Theorem evaluated_was_recorded (P : prims) :
  forall e, wf e = true ->
  forall m v m' l x mr lr i w',
  ev P 0 e (m, []) = Ok (v, (m', l)) -> rc P 0 e (up m, []) = Ok (x, (mr, lr)) ->
  In (i, w') l ->
  exists w, In (i, w) lr /\ (w = w' \/ exists y inp, w = VAllFail y inp).
Proof.
  intros e Hw m v m' l x mr lr i w' He Hr Hin.
  destruct (rc_sound P e Hw _ _ _ _ _ _ _ He Hr) as (_ & _ & F).
  destruct (Forall2_in_r _ _ _ _ F Hin) as ([i2 w] & Ha & [Hi Hv]). cbn in Hi, Hv. subst i2.
  apply filter_In in Ha as [Ha _]. exists w. split; assumption.
Qed.
