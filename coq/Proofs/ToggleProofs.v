(** C15: the expressions in /repo (as translated on this run) that decide whether a contract is
    enabled compute the documented rule, for every interpreter mode and every ICONTRACT_SLOW. *)
From Coq Require Import List String Bool.
From ICV Require Import Base Generated Toggle.
Import ListNotations.
Open Scope string_scope.

Lemma slow_is_spec m e : slow_expr (debug_of m) (env_of e) = slow_spec m e.
Proof. destruct m, e; reflexivity. Qed.

Lemma defaults_are_debug m :
  enabled_default_require (debug_of m) = debug_of m /\ enabled_default_ensure (debug_of m) = debug_of m
  /\ enabled_default_snapshot (debug_of m) = debug_of m /\ enabled_default_invariant (debug_of m) = debug_of m.
Proof. repeat split. Qed.

(** every decorator's [__call__] starts by returning its argument when not enabled, and [__init__]
    stores the flag it was given *)
Lemma early_returns :
  early_return_require = true /\ early_return_ensure = true /\ early_return_snapshot = true /\ early_return_invariant = true
  /\ stores_enabled_require = true /\ stores_enabled_ensure = true /\ stores_enabled_snapshot = true
  /\ stores_enabled_invariant = true.
Proof. repeat split. Qed.

(** no assert statement of the library has an effect that would disappear under -O *)
Lemma asserts_are_effect_free : asserts_with_possible_effect = [].
Proof. reflexivity. Qed.
