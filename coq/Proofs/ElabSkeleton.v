(** The hierarchy the oracles read (liveness, resolution orders, "created through the meta-class") from the world
    the *observed* outcomes give ([skeleton_world], Spec/ElabOracle.v) is, on the model's own history, the hierarchy
    of the model's final world: judging an observed history on its own skeleton is judging it on the model's world
    whenever model and implementation agree on which definitions raise. *)
From Coq Require Import List String ZArith Bool Arith Lia.
From ICV Require Import Base Bind Checker Elab ElabFrame ElabClassFrame ElabOwnLists ElabRegistered ElabCase ElabOracle.
Import ListNotations.
Open Scope string_scope.
Open Scope list_scope.

(** what the oracles read off a world *)
Definition hv (w : world) : list (list nat * bool) := map (fun c => (co_mro c, co_meta c)) (w_classes w).

Lemma hv_class_ns_set w k name m : hv (class_ns_set w k name m) = hv w.
Proof.
  unfold class_ns_set. destruct (get_class w k) as [c|] eqn:E; [|reflexivity].
  unfold hv, set_class; cbn. apply map_set_nth_same. intros y Hy. unfold get_class in E. rewrite E in Hy.
  injection Hy as <-. reflexivity.
Qed.

Lemma hv_class_ns_set_if w k name ch m : hv (class_ns_set_if w k name ch m) = hv w.
Proof. unfold class_ns_set_if. destruct (ch || in_own_ns w k name); [apply hv_class_ns_set|reflexivity]. Qed.

Lemma hv_decorate_with_invariants w f b : hv (fst (decorate_with_invariants w f b)) = hv w.
Proof.
  unfold decorate_with_invariants. destruct (already_inv_wrapped w _ f); [reflexivity|].
  unfold wrap. destruct (get_func w f); reflexivity.
Qed.

Lemma hv_decorate_inv_opt w o : hv (fst (decorate_inv_opt w o)) = hv w.
Proof.
  unfold decorate_inv_opt. destruct o as [x|]; [|reflexivity].
  pose proof (hv_decorate_with_invariants w x false) as H.
  destruct (decorate_with_invariants w x false). exact H.
Qed.

Lemma hv_wrap_member w k name : hv (wrap_member w k name) = hv w.
Proof.
  unfold wrap_member.
  destruct (str_in name _); [reflexivity|].
  destruct (negb (String.eqb name "__setattr__") && negb (negb (is_nil (class_invs w k LCall)))); [reflexivity|].
  destruct (String.eqb name "__setattr__" && negb (negb (is_nil (class_invs w k LSet)))); [reflexivity|].
  destruct (is_private name); [reflexivity|].
  destruct (class_getattr w k name) as [[kd f|g s d|n]|]; try reflexivity.
  - destruct kd; try reflexivity.
    pose proof (hv_decorate_with_invariants w f false) as H.
    destruct (decorate_with_invariants w f false) as [w1 f']. rewrite hv_class_ns_set_if. exact H.
  - pose proof (hv_decorate_inv_opt w g) as H1. destruct (decorate_inv_opt w g) as [w1 g'].
    pose proof (hv_decorate_inv_opt w1 s) as H2. destruct (decorate_inv_opt w1 s) as [w2 s'].
    pose proof (hv_decorate_inv_opt w2 d) as H3. destruct (decorate_inv_opt w2 d) as [w3 d'].
    rewrite hv_class_ns_set_if. cbn in *. congruence.
  - unfold slot_function. 
    match goal with |- context [add_func w ?fo] => destruct (add_func w fo) as [wa f] eqn:E end.
    assert (Ha : hv wa = hv w) by (unfold add_func in E; injection E as <- _; reflexivity).
    pose proof (hv_decorate_with_invariants wa f false) as H.
    destruct (decorate_with_invariants wa f false) as [w1 f']. rewrite hv_class_ns_set. cbn in H. congruence.
Qed.

Lemma hv_wrap_constructor w k : hv (wrap_constructor w k) = hv w.
Proof.
  unfold wrap_constructor.
  destruct (class_getattr w k "__init__") as [[kd f|g s d|n]|]; try reflexivity.
  - destruct kd; try reflexivity.
    pose proof (hv_decorate_with_invariants w f true) as H.
    destruct (decorate_with_invariants w f true) as [w1 f']. rewrite hv_class_ns_set_if. exact H.
  - destruct (has_own_new w k).
    + destruct (class_getattr w k "__new__") as [[kd f|g s d|n']|]; try reflexivity.
      destruct (already_inv_wrapped w _ f); [reflexivity|].
      unfold wrap. destruct (get_func w f); [|reflexivity]. unfold add_func. rewrite hv_class_ns_set. reflexivity.
    + unfold slot_function.
      match goal with |- context [add_func w ?fo] => destruct (add_func w fo) as [wa f] eqn:E end.
      assert (Ha : hv wa = hv w) by (unfold add_func in E; injection E as <- _; reflexivity).
      pose proof (hv_decorate_with_invariants wa f true) as H.
      destruct (decorate_with_invariants wa f true) as [w1 f']. rewrite hv_class_ns_set. cbn in H. congruence.
Qed.

Lemma hv_add_invariant_checks w k : hv (add_invariant_checks w k) = hv w.
Proof.
  unfold add_invariant_checks. rewrite <- (hv_wrap_constructor w k).
  generalize (dir_names (wrap_constructor w k) k). generalize (wrap_constructor w k).
  intros w1 names. revert w1. induction names as [|n r IH]; intro w1; cbn; [reflexivity|].
  rewrite IH. apply hv_wrap_member.
Qed.


Lemma hv_class_set_invs w k a b c : hv (class_set_invs w k a b c) = hv w.
Proof.
  unfold class_set_invs. destruct (get_class w k) as [co|] eqn:E; [|reflexivity].
  unfold hv, set_class; cbn. apply map_set_nth_same. intros y Hy. unfold get_class in E. rewrite E in Hy.
  injection Hy as <-. reflexivity.
Qed.

Lemma hv_apply_invariant w k d : hv (apply_invariant w k d) = hv w.
Proof.
  unfold apply_invariant. destruct (negb (id_enabled d)); [reflexivity|].
  set (w1 := match class_inv w k LInv with
             | Some _ => w
             | None => let '(wa, r1) := alloc w [] in let '(wb, r2) := alloc wa [] in let '(wc, r3) := alloc wb [] in
                       class_set_invs wc k (Some r1) (Some r2) (Some r3)
             end).
  assert (H1 : hv w1 = hv w).
  { unfold w1. destruct (class_inv w k LInv); [reflexivity|]. cbn. rewrite hv_class_set_invs. reflexivity. }
  destruct (class_inv w1 k LInv) as [r1|]; [|exact H1]. destruct (class_inv w1 k LCall) as [r2|]; [|exact H1].
  destruct (class_inv w1 k LSet) as [r3|]; [|exact H1].
  rewrite hv_add_invariant_checks. rewrite <- H1. destruct (on_setattr _), (on_call _); reflexivity.
Qed.

Lemma hv_apply_invariants k : forall ds w, hv (fold_left (fun acc i => apply_invariant acc k i) ds w) = hv w.
Proof. induction ds as [|d r IH]; intro w; cbn; [reflexivity|]. rewrite IH. apply hv_apply_invariant. Qed.

Lemma hv_keeps w0 w : Keeps w0 w -> hv w = hv w0.
Proof. intros (_ & _ & C & _). unfold hv. rewrite C. reflexivity. Qed.

Lemma hv_length w : List.length (hv w) = List.length (w_classes w).
Proof. unfold hv. apply map_length. Qed.

(** liveness, resolution orders and the meta flag are functions of [hv] *)
Lemma hv_nth w k : nth_error (hv w) k = option_map (fun c => (co_mro c, co_meta c)) (get_class w k).
Proof. unfold hv, get_class. apply nth_error_map. Qed.

Lemma hv_mro_of w w' : hv w = hv w' -> forall k, mro_of w k = mro_of w' k.
Proof.
  intros H k. unfold mro_of. pose proof (hv_nth w k) as A. pose proof (hv_nth w' k) as B. rewrite H in A. rewrite A in B.
  destruct (get_class w k), (get_class w' k); cbn in B; try discriminate; [|reflexivity]. injection B as B _. exact B.
Qed.

Lemma hv_is_live w w' : hv w = hv w' -> forall k, is_live w k = is_live w' k.
Proof.
  intros H k. unfold is_live. pose proof (hv_nth w k) as A. pose proof (hv_nth w' k) as B. rewrite H in A. rewrite A in B.
  destruct (get_class w k), (get_class w' k); cbn in B; try discriminate; [|reflexivity]. injection B as B _. rewrite B. reflexivity.
Qed.

Lemma hv_meta_of w w' : hv w = hv w' ->
  forall k, match get_class w k with Some c => co_meta c | None => false end
            = match get_class w' k with Some c => co_meta c | None => false end.
Proof.
  intros H k. pose proof (hv_nth w k) as A. pose proof (hv_nth w' k) as B. rewrite H in A. rewrite A in B.
  destruct (get_class w k), (get_class w' k); cbn in B; try discriminate; [|reflexivity]. injection B as _ B. exact B.
Qed.

Lemma hv_compute_mro w w' : hv w = hv w' -> forall k bases, compute_mro w k bases = compute_mro w' k bases.
Proof.
  intros H k bases. unfold compute_mro.
  assert (L : List.length (w_classes w) = List.length (w_classes w')) by (rewrite <- !hv_length, H; reflexivity).
  rewrite L. do 3 f_equal. apply map_ext. intro b. apply hv_mro_of. exact H.
Qed.

(** a class statement that succeeds appends (resolution order, meta flag) *)
Lemma define_class_pre_hv w d w5 k :
  define_class_pre w d = Ok (w5, k) ->
  k = List.length (w_classes w) /\ forallb (is_live w) (cd_bases d) = true /\
  exists mro, compute_mro w k (cd_bases d) = Some mro /\ hv w5 = hv w ++ [(mro, is_meta w d)].
Proof.
  intro H. destruct (define_class_pre_shape w d w5 k H) as (Hk & _). split; [exact Hk|].
  unfold define_class_pre in H.
  destruct (inv_construction_error (rev (cd_invs d))); [discriminate|].
  destruct (forallb (is_live w) (cd_bases d)) eqn:Live; cbn [negb] in H; [|discriminate]. split; [reflexivity|].
  destruct (define_members w (cd_bases d) (cd_members d) []) as [[w1 ns]|e] eqn:Dm; cbn [bind] in H; [|discriminate].
  assert (Fc0 : FreshClosed w w) by (intros f fo Hf Hg; apply get_func_bound in Hg; lia).
  assert (N0 : NsOk w w (cd_bases d) []) by (intros key m []).
  destruct (define_members_good w (cd_bases d) (cd_members d) w [] w1 ns (Keeps_refl w) Fc0 N0 Dm) as (K1 & C1 & N1).
  assert (E1 : w_classes w1 = w_classes w) by (apply Keeps_classes; exact K1).
  assert (Em : (cd_dbc d || existsb (fun b => match get_class w1 b with Some c => co_meta c | None => false end) (cd_bases d))
               = is_meta w d) by (unfold is_meta, get_class; rewrite E1; reflexivity).
  rewrite Em in H.
  assert (Emro : compute_mro w1 (List.length (w_classes w1)) (cd_bases d) = compute_mro w k (cd_bases d)).
  { rewrite Hk, E1. apply hv_compute_mro. apply hv_keeps. exact K1. }
  rewrite Emro in H.
  destruct (compute_mro w k (cd_bases d)) as [mro|];
    [|match type of H with context [if ?b then ?x else ?y] => destruct (if b then x else y) end; discriminate].
  exists mro. split; [reflexivity|].
  destruct (is_meta w d) eqn:Meta.
  - destruct (collapse_invariants w1 (cd_bases d) LInv) as [wa i1] eqn:Ca.
    destruct (collapse_invariants wa (cd_bases d) LCall) as [wb i2] eqn:Cb.
    destruct (collapse_invariants wb (cd_bases d) LSet) as [wc i3] eqn:Cc.
    assert (Ka : Keeps w wa) by (replace wa with (fst (collapse_invariants w1 (cd_bases d) LInv)) by (rewrite Ca; reflexivity); apply Keeps_collapse_invariants; exact K1).
    assert (Kb : Keeps w wb) by (replace wb with (fst (collapse_invariants wa (cd_bases d) LCall)) by (rewrite Cb; reflexivity); apply Keeps_collapse_invariants; exact Ka).
    assert (Kc : Keeps w wc) by (replace wc with (fst (collapse_invariants wb (cd_bases d) LSet)) by (rewrite Cc; reflexivity); apply Keeps_collapse_invariants; exact Kb).
    assert (Fc : FC w wc).
    { replace wc with (fst (collapse_invariants wb (cd_bases d) LSet)) by (rewrite Cc; reflexivity). apply FC_collapse_invariants.
      replace wb with (fst (collapse_invariants wa (cd_bases d) LCall)) by (rewrite Cb; reflexivity). apply FC_collapse_invariants.
      replace wa with (fst (collapse_invariants w1 (cd_bases d) LInv)) by (rewrite Ca; reflexivity). apply FC_collapse_invariants.
      apply FreshClosed_FC. exact C1. }
    destruct (dbc_decorate_members wc (cd_bases d) (cd_dbc d) ns ns) as [[w2 ns2]|e] eqn:Dd; cbn [bind fst snd] in H; [|discriminate].
    assert (Nc : forall key m, In (key, m) ns -> member_ok w wc (cd_bases d) key m).
    { intros key m Hin. apply member_ok_same_classes with (w := w1).
      - rewrite E1, (Keeps_classes w wc Kc). reflexivity.
      - apply N1. exact Hin. }
    destruct (dbc_decorate_members_good w (cd_bases d) (cd_dbc d) ns wc ns w2 ns2 Kc Fc Nc Dd) as (K2 & _).
    pose proof (hv_keeps w w2 K2) as R2. unfold hv in R2.
    injection H as Hw5 Hk5. subst w5.
    match goal with |- hv {| w_heap := _; w_funcs := _; w_classes := w_classes ?w4; w_registered := _; w_module := _ |} = _ =>
      assert (R4 : hv w4 = hv w ++ [(mro, true)]) end.
    { match goal with |- hv (match ?c with Some _ => add_invariant_checks ?w3 ?kk | None => _ end) = _ =>
        assert (R3 : hv w3 = hv w ++ [(mro, true)])
          by (unfold hv; cbn [w_classes]; rewrite map_app, R2; reflexivity);
        destruct c; [rewrite hv_add_invariant_checks|]; exact R3 end. }
    unfold hv in *. cbn [w_classes]. exact R4.
  - cbn [bind] in H. injection H as Hw5 Hk5. subst w5. pose proof (hv_keeps w w1 K1) as R1. unfold hv in R1.
    unfold hv. cbn [w_classes]. rewrite map_app, R1. reflexivity.
Qed.

(** ** every kind of step *)
Lemma step_hv w op w' :
  step_def w op = Ok w' ->
  match op with
  | DefClass d =>
      forallb (is_live w) (cd_bases d) = true /\
      exists mro, compute_mro w (List.length (w_classes w)) (cd_bases d) = Some mro /\ hv w' = hv w ++ [(mro, is_meta w d)]
  | _ => hv w' = hv w
  end.
Proof.
  intro H. destruct op as [m|d|k name dc]; cbn [step_def] in H.
  - destruct (define_function w (md_sig m) (md_async m) (md_decos m)) as [[w1 f]|e] eqn:Df; cbn [bind fst snd] in H; [|discriminate].
    injection H as <-.
    assert (Fc0 : FreshClosed w w) by (intros f0 fo Hf Hg; apply get_func_bound in Hg; lia).
    destruct (define_function_good w w _ _ _ w1 f (Keeps_refl w) Fc0 Df) as (K1 & _).
    pose proof (hv_keeps w w1 K1) as R. unfold hv in *. cbn [w_classes]. exact R.
  - rewrite define_class_split in H. destruct (define_class_pre w d) as [[w5 k]|e] eqn:P; [|discriminate]. injection H as <-.
    destruct (define_class_pre_hv w d w5 k P) as (Hk & Live & mro & Hm & R5). split; [exact Live|].
    exists mro. rewrite <- Hk. split; [exact Hm|]. rewrite hv_apply_invariants. exact R5.
  - destruct (negb (is_live w k)); [discriminate|].
    destruct (class_getattr w k name) as [[kd f|g s dd|n]|]; try discriminate. destruct kd; try discriminate.
    destruct (apply_deco w f dc) as [[w1 f1]|e] eqn:A; cbn [bind fst snd] in H; [|discriminate]. injection H as <-.
    rewrite hv_class_ns_set. pose proof (apply_deco_cr _ _ _ _ _ A) as C. unfold cr in C.
    injection C as C1 C2. unfold hv. rewrite C1. reflexivity.
Qed.

Lemma existsb_ext' {A} (f g : A -> bool) l : (forall x, f x = g x) -> existsb f l = existsb g l.
Proof. intro H. induction l as [|a r IH]; cbn; [reflexivity|]. rewrite H, IH. reflexivity. Qed.
Lemma forallb_ext' {A} (f g : A -> bool) l : (forall x, f x = g x) -> forallb f l = forallb g l.
Proof. intro H. induction l as [|a r IH]; cbn; [reflexivity|]. rewrite H, IH. reflexivity. Qed.

Lemma is_meta_hv w w' d : hv w = hv w' -> is_meta w d = is_meta w' d.
Proof.
  intro H. unfold is_meta. f_equal. apply existsb_ext'. intro b.
  exact (hv_meta_of w w' H b).
Qed.

(** ** the skeleton of a history is the hierarchy of the world it reaches *)
Theorem skeleton_from_agrees : forall ops ws w,
  hv ws = hv w ->
  hv (skeleton_world_from ws ops (snd (run_defs w ops))) = hv (fst (run_defs w ops)).
Proof.
  induction ops as [|op rest IH]; intros ws w H; cbn [run_defs skeleton_world_from]; [exact H|].
  assert (L : List.length (w_classes ws) = List.length (w_classes w)) by (rewrite <- !hv_length, H; reflexivity).
  destruct (step_def w op) as [w'|e] eqn:S.
  - pose proof (step_hv w op w' S) as Hs.
    destruct (run_defs w' rest) as [wf errs] eqn:R. cbn [fst snd].
    replace wf with (fst (run_defs w' rest)) by (rewrite R; reflexivity).
    replace errs with (snd (run_defs w' rest)) by (rewrite R; reflexivity).
    destruct op as [m|d|k name dc]; cbn [tl hd].
    + apply IH. rewrite Hs. exact H.
    + destruct Hs as (Live & mro & Hm & Hw'). apply IH.
      rewrite (forallb_ext' _ _ (cd_bases d) (hv_is_live ws w H)), Live, L, (hv_compute_mro ws w H), Hm.
      unfold add_class, hv. cbn [w_classes]. rewrite map_app. cbn [map co_mro co_meta].
      change (hv ws ++ [(mro, is_meta ws d)] = hv w'). rewrite Hw', H, (is_meta_hv ws w d H). reflexivity.
    + apply IH. rewrite Hs. exact H.
  - destruct (run_defs (fail_def w op) rest) as [wf errs] eqn:R. cbn [fst snd].
    replace wf with (fst (run_defs (fail_def w op) rest)) by (rewrite R; reflexivity).
    replace errs with (snd (run_defs (fail_def w op) rest)) by (rewrite R; reflexivity).
    destruct op as [m|d|k name dc]; cbn [tl hd fail_def].
    + apply IH. exact H.
    + apply IH. unfold add_class, hv. cbn [w_classes]. rewrite !map_app. cbn [map dead_class co_mro co_meta].
      fold (hv ws) (hv w). rewrite H. reflexivity.
    + apply IH. exact H.
Qed.

Theorem skeleton_agrees ops :
  hv (skeleton_world ops (snd (run_defs empty_world ops))) = hv (fst (run_defs empty_world ops)).
Proof. apply skeleton_from_agrees. reflexivity. Qed.

(** what the oracles read is the same in both worlds *)
Corollary skeleton_reads_the_same ops :
  let ws := skeleton_world ops (snd (run_defs empty_world ops)) in
  let w := fst (run_defs empty_world ops) in
  List.length (w_classes ws) = List.length (w_classes w)
  /\ (forall k, is_live ws k = is_live w k)
  /\ (forall k, mro_of ws k = mro_of w k)
  /\ (forall k, match get_class ws k with Some c => co_meta c | None => false end
                = match get_class w k with Some c => co_meta c | None => false end).
Proof.
  intros ws w. pose proof (skeleton_agrees ops) as H. fold ws w in H. repeat split.
  - rewrite <- !hv_length, H. reflexivity.
  - apply hv_is_live. exact H.
  - apply hv_mro_of. exact H.
  - apply hv_meta_of. exact H.
Qed.
