(** C05: the library's index-based resolution agrees with Python's binding on every
    named non-variadic parameter, outside the two recorded finding classes. *)
From ICV Require Import Base Bind DictLemmas.
Open Scope string_scope.
Open Scope list_scope.

(** ** Looking a name up in the resolved arguments. *)
Fixpoint index_of (n : string) (l : list string) : option nat :=
  match l with
  | [] => None
  | x :: r => if String.eqb x n then Some 0 else option_map S (index_of n r)
  end.

Lemma index_of_none n l : index_of n l = None <-> ~ In n l.
Proof.
  induction l as [|x l IH]; cbn.
  - tauto.
  - destruct (String.eqb x n) eqn:E.
    + apply String.eqb_eq in E. subst. split; [discriminate | intros H; exfalso; apply H; auto].
    + destruct (index_of n l) eqn:E2; cbn.
      * split; [discriminate|]. intros H. exfalso. apply H. right.
        destruct (in_dec string_dec n l) as [|Hn]; auto. apply IH in Hn. discriminate.
      * split; auto. intros _ [H|H].
        -- subst. rewrite String.eqb_refl in E. discriminate.
        -- apply IH in H; auto.
Qed.

Lemma index_of_nth n l j : NoDup l -> nth_error l j = Some n -> index_of n l = Some j.
Proof.
  revert j. induction l as [|y l IH]; intros [|j] Hnd Hj; cbn in *; try discriminate.
  - injection Hj as ->. now rewrite String.eqb_refl.
  - inversion Hnd as [|? ? Hnin Hnd']; subst.
    destruct (String.eqb y n) eqn:E.
    + apply String.eqb_eq in E. subst. exfalso. apply Hnin. eapply nth_error_In; eauto.
    + rewrite (IH _ Hnd' Hj). reflexivity.
Qed.

Lemma nth_error_app_right {A} (l1 l2 : list A) j :
  nth_error (l1 ++ l2) (List.length l1 + j) = nth_error l2 j.
Proof. induction l1; cbn; auto. Qed.

Lemma set_all_get kvs : forall r n,
  NoDup (dict_keys kvs) ->
  dict_get (set_all kvs r) n = match dict_get kvs n with Some v => Some v | None => dict_get r n end.
Proof.
  unfold set_all. induction kvs as [|[k v] kvs IH]; intros r n Hnd; cbn.
  - reflexivity.
  - inversion Hnd as [|? ? Hnin Hnd']; subst. rewrite (IH _ _ Hnd').
    destruct (String.eqb k n) eqn:E.
    + apply String.eqb_eq in E. subst.
      assert (dict_get kvs n = None) as -> by (apply dict_get_none_not_in; exact Hnin).
      apply dict_get_set_same.
    + destruct (dict_get kvs n); auto.
      apply dict_get_set_other. intro H. subst. rewrite String.eqb_refl in E. discriminate.
Qed.

Lemma set_positional_get names : forall args r n,
  NoDup names ->
  dict_get (set_positional names args r) n
  = match index_of n names with
    | Some i => match nth_error args i with Some a => Some a | None => dict_get r n end
    | None => dict_get r n
    end.
Proof.
  induction names as [|x names IH]; intros args r n Hnd; cbn.
  - reflexivity.
  - inversion Hnd as [|? ? Hnin Hnd']; subst.
    destruct args as [|a args].
    + destruct (String.eqb x n); [reflexivity|].
      destruct (index_of n names) as [i|]; cbn; auto.
    + rewrite (IH _ _ _ Hnd').
      destruct (String.eqb x n) eqn:E.
      * apply String.eqb_eq in E. subst.
        assert (index_of n names = None) as -> by (apply index_of_none; exact Hnin).
        cbn. apply dict_get_set_same.
      * assert (x <> n) as Hne by (intro H; subst; rewrite String.eqb_refl in E; discriminate).
        destruct (index_of n names) as [i|]; cbn.
        -- destruct (nth_error args i); auto. apply dict_get_set_other; auto.
        -- apply dict_get_set_other; auto.
Qed.

(** ** Defaults. *)
Lemma defaults_of_keys_incl l n : In n (dict_keys (defaults_of l)) -> In n (map pname l).
Proof.
  induction l as [|p l IH]; cbn; auto.
  destruct (pdefault p); cbn; [intros [H|H]; auto | auto].
Qed.

Lemma defaults_of_nodup l : NoDup (map pname l) -> NoDup (dict_keys (defaults_of l)).
Proof.
  induction l as [|p l IH]; cbn; intros Hnd.
  - constructor.
  - inversion Hnd as [|? ? Hnin Hnd']; subst.
    destruct (pdefault p); cbn; auto.
    constructor; auto. intro H. apply Hnin. apply defaults_of_keys_incl. exact H.
Qed.

Lemma defaults_of_get l p : NoDup (map pname l) -> In p l -> dict_get (defaults_of l) (pname p) = pdefault p.
Proof.
  induction l as [|q l IH]; cbn; intros Hnd Hin; [tauto|].
  inversion Hnd as [|? ? Hnin Hnd']; subst.
  destruct Hin as [->|Hin].
  - destruct (pdefault p) eqn:E; cbn.
    + now rewrite String.eqb_refl.
    + apply dict_get_none_not_in. intro H. apply Hnin. apply defaults_of_keys_incl. exact H.
  - assert (pname q <> pname p) as Hne.
    { intro H. apply Hnin. rewrite H. apply in_map. exact Hin. }
    destruct (pdefault q); cbn.
    + destruct (String.eqb (pname q) (pname p)) eqn:E.
      * apply String.eqb_eq in E. contradiction.
      * apply IH; auto.
    + apply IH; auto.
Qed.

(** ** What the body receives, per parameter. *)
Lemma bind_positionals_keys kw args kwargs ps : forall i d,
  bind_positionals kw args kwargs i ps = Some d -> dict_keys d = map pname ps.
Proof.
  induction ps as [|p ps IH]; cbn; intros i d H.
  - injection H as <-. reflexivity.
  - destruct (bind_positional kw args kwargs i p); [|discriminate].
    destruct (bind_positionals kw args kwargs (S i) ps) eqn:E; [|discriminate].
    injection H as <-. cbn. f_equal. eapply IH; eauto.
Qed.

Lemma bind_positionals_get kw args kwargs ps : forall i d j p,
  bind_positionals kw args kwargs i ps = Some d ->
  NoDup (map pname ps) -> nth_error ps j = Some p ->
  dict_get d (pname p) = bind_positional kw args kwargs (i + j) p
  /\ bind_positional kw args kwargs (i + j) p <> None.
Proof.
  induction ps as [|q ps IH]; cbn; intros i d j p H Hnd Hj.
  - destruct j; discriminate.
  - destruct (bind_positional kw args kwargs i q) as [v|] eqn:Eq; [|discriminate].
    destruct (bind_positionals kw args kwargs (S i) ps) as [d'|] eqn:E; [|discriminate].
    injection H as <-. inversion Hnd as [|? ? Hnin Hnd']; subst.
    destruct j as [|j]; cbn in Hj.
    + injection Hj as ->. cbn. rewrite String.eqb_refl. rewrite Nat.add_0_r. rewrite Eq.
      split; [reflexivity | discriminate].
    + cbn. destruct (String.eqb (pname q) (pname p)) eqn:E2.
      * apply String.eqb_eq in E2. exfalso. apply Hnin. rewrite E2. apply in_map.
        eapply nth_error_In; eauto.
      * replace (i + S j) with (S i + j) by lia. eapply IH; eauto.
Qed.

Lemma bind_kwonlys_keys kwargs ps : forall d,
  bind_kwonlys kwargs ps = Some d -> dict_keys d = map pname ps.
Proof.
  induction ps as [|p ps IH]; cbn; intros d H.
  - injection H as <-. reflexivity.
  - destruct (bind_kwonly kwargs p); [|discriminate].
    destruct (bind_kwonlys kwargs ps) eqn:E; [|discriminate].
    injection H as <-. cbn. f_equal. eapply IH; eauto.
Qed.

Lemma bind_kwonlys_get kwargs ps : forall d p,
  bind_kwonlys kwargs ps = Some d -> NoDup (map pname ps) -> In p ps ->
  dict_get d (pname p) = bind_kwonly kwargs p /\ bind_kwonly kwargs p <> None.
Proof.
  induction ps as [|q ps IH]; cbn; intros d p H Hnd Hin; [tauto|].
  destruct (bind_kwonly kwargs q) as [v|] eqn:Eq; [|discriminate].
  destruct (bind_kwonlys kwargs ps) as [d'|] eqn:E; [|discriminate].
  injection H as <-. inversion Hnd as [|? ? Hnin Hnd']; subst.
  destruct Hin as [->|Hin].
  - cbn. rewrite String.eqb_refl. rewrite Eq. split; [reflexivity|discriminate].
  - cbn. destruct (String.eqb (pname q) (pname p)) eqn:E2.
    + apply String.eqb_eq in E2. exfalso. apply Hnin. rewrite E2. apply in_map. exact Hin.
    + eapply IH; eauto.
Qed.

(** ** Looking a name up in what the contracts see. *)
Definition r0 (args : list pv) (kwargs : dict) : dict :=
  [("_ARGS", PTuple args); ("_KWARGS", PDict kwargs)].

Lemma resolve_get names defaults args kwargs n :
  NoDup names -> NoDup (dict_keys defaults) -> NoDup (dict_keys kwargs) ->
  dict_get (resolve names defaults args kwargs) n
  = match dict_get kwargs n with
    | Some v => Some v
    | None =>
        let def := match dict_get defaults n with Some v => Some v | None => dict_get (r0 args kwargs) n end in
        match index_of n names with
        | Some i => match nth_error args i with Some a => Some a | None => def end
        | None => def
        end
    end.
Proof.
  intros Hn Hd Hk. unfold resolve.
  rewrite set_all_get by assumption.
  destruct (dict_get kwargs n); [reflexivity|].
  rewrite set_positional_get by assumption.
  rewrite set_all_get by assumption. reflexivity.
Qed.

Lemma NoDup_app_l {A} (l1 l2 : list A) : NoDup (l1 ++ l2) -> NoDup l1.
Proof.
  induction l1 as [|x l1 IH]; cbn; intros H; [constructor|].
  inversion H as [|? ? Hnin Hnd]; subst. constructor; auto.
  intro Hin. apply Hnin. apply in_or_app. auto.
Qed.

Lemma NoDup_app_r {A} (l1 l2 : list A) : NoDup (l1 ++ l2) -> NoDup l2.
Proof.
  induction l1 as [|x l1 IH]; cbn; intros H; auto.
  inversion H; subst; auto.
Qed.

Lemma NoDup_named s : NoDup (sig_names s) -> NoDup (map pname (named_params s)).
Proof.
  unfold sig_names, named_params. rewrite !map_app. intros H.
  destruct (varpos s) as [vp|]; destruct (varkw s) as [vk|]; cbn [opt_list] in H.
  - rewrite !app_assoc in H. apply NoDup_app_l in H. rewrite <- !app_assoc in H.
    replace (map pname (posonly s) ++ map pname (poskw s) ++ [vp] ++ map pname (kwonly s))
      with ((map pname (posonly s) ++ map pname (poskw s)) ++ vp :: map pname (kwonly s)) in H
      by (rewrite <- app_assoc; reflexivity).
    apply NoDup_remove_1 in H. rewrite <- app_assoc in H. exact H.
  - rewrite app_nil_r in H.
    replace (map pname (posonly s) ++ map pname (poskw s) ++ [vp] ++ map pname (kwonly s))
      with ((map pname (posonly s) ++ map pname (poskw s)) ++ vp :: map pname (kwonly s)) in H
      by (rewrite <- app_assoc; reflexivity).
    apply NoDup_remove_1 in H. rewrite <- app_assoc in H. exact H.
  - cbn [app] in H. rewrite !app_assoc in H. apply NoDup_app_l in H.
    rewrite <- !app_assoc in H. exact H.
  - cbn [app] in H. rewrite app_nil_r in H. exact H.
Qed.

Lemma kwonly_hit_false kwargs nargs ps : forall i j p,
  kwonly_hit i nargs kwargs ps = false -> nth_error ps j = Some p ->
  dict_has kwargs (pname p) = false -> Nat.ltb (i + j) nargs = false.
Proof.
  induction ps as [|q ps IH]; intros i j p H Hj Hk.
  - destruct j; discriminate.
  - cbn in H. apply orb_false_iff in H as [H1 H2].
    destruct j as [|j]; cbn in Hj.
    + injection Hj as ->. rewrite Hk in H1. cbn in H1. rewrite andb_true_r in H1.
      rewrite Nat.add_0_r. exact H1.
    + replace (i + S j) with (S i + j) by lia. eapply IH; eauto.
Qed.

Lemma in_map_pname_nth (l : list nparam) n :
  In n (map pname l) -> exists j p, nth_error l j = Some p /\ pname p = n.
Proof.
  intros H. apply in_map_iff in H as [p [Hp Hin]].
  apply In_nth_error in Hin as [j Hj]. eauto.
Qed.

Lemma nth_error_map_pname (l : list nparam) j p :
  nth_error l j = Some p -> nth_error (map pname l) j = Some (pname p).
Proof. intros H. now apply map_nth_error. Qed.

Lemma not_in_keys_get (d : dict) n : ~ In n (dict_keys d) -> dict_get d n = None.
Proof. apply dict_get_none_not_in. Qed.

Lemma NoDup_app_disjoint {A} (l1 l2 : list A) x : NoDup (l1 ++ l2) -> In x l1 -> ~ In x l2.
Proof.
  induction l1 as [|y l1 IH]; cbn; intros Hnd Hin; [tauto|].
  inversion Hnd as [|? ? Hnin Hnd']; subst. destruct Hin as [->|Hin].
  - intro H. apply Hnin. apply in_or_app. auto.
  - apply IH; auto.
Qed.

(** ** The agreement theorem. *)
Record wf_call (s : sig) (kwargs : dict) : Prop := {
  wf_names : NoDup (sig_names s);
  wf_names_unreserved : forall n, In n (sig_names s) -> reserved n = false;
  wf_kw : NoDup (dict_keys kwargs);
  wf_kw_unreserved : forall k, In k (dict_keys kwargs) -> reserved k = false }.

Section Agree.
  Variables (s : sig) (args : list pv) (kwargs env : dict).
  Hypothesis Hwf : wf_call s kwargs.
  Hypothesis Hbind : pybind s args kwargs = Some env.
  Hypothesis Hsur : kf_C05_surplus s args kwargs = false.
  Hypothesis Hpos : kf_C05_posonly s kwargs = false.

  Let seen := resolve_sig s args kwargs.

  Lemma seen_get n :
    dict_get seen n
    = match dict_get kwargs n with
      | Some v => Some v
      | None =>
          let def := match dict_get (sig_defaults s) n with
                     | Some v => Some v | None => dict_get (r0 args kwargs) n end in
          match index_of n (sig_names s) with
          | Some i => match nth_error args i with Some a => Some a | None => def end
          | None => def
          end
      end.
  Proof.
    destruct Hwf. unfold seen, resolve_sig. apply resolve_get; auto.
    apply defaults_of_nodup. apply NoDup_named. assumption.
  Qed.

  Lemma env_shape :
    exists d1 d2 d3,
      bind_positionals false args kwargs 0 (posonly s) = Some d1
      /\ bind_positionals true args kwargs (List.length (posonly s)) (poskw s) = Some d2
      /\ bind_kwonlys kwargs (kwonly s) = Some d3
      /\ env = d1 ++ d2
               ++ map (fun n => (n, PTuple (skipn (n_positional s) args))) (opt_list (varpos s))
               ++ d3
               ++ map (fun n => (n, PDict (extra_kwargs s kwargs))) (opt_list (varkw s)).
  Proof.
    unfold pybind in Hbind.
    destruct (bind_positionals false args kwargs 0 (posonly s)) as [d1|] eqn:E1;
      destruct (bind_positionals true args kwargs (List.length (posonly s)) (poskw s)) as [d2|] eqn:E2;
      destruct (bind_kwonlys kwargs (kwonly s)) as [d3|] eqn:E3;
      destruct (skipn (n_positional s) args) as [|x xs] eqn:Esk;
      destruct (varpos s) as [vp|] eqn:Evp;
      destruct (extra_kwargs s kwargs) as [|y ys] eqn:Eex;
      destruct (varkw s) as [vk|] eqn:Evk;
      try discriminate;
      injection Hbind as <-; exists d1, d2, d3; repeat split; reflexivity.
  Qed.

  Lemma default_get p : In p (named_params s) -> dict_get (sig_defaults s) (pname p) = pdefault p.
  Proof.
    intros Hin. apply defaults_of_get; auto. apply NoDup_named. destruct Hwf; assumption.
  Qed.

  Lemma names_split :
    sig_names s = map pname (posonly s) ++ map pname (poskw s) ++ opt_list (varpos s)
                  ++ map pname (kwonly s) ++ opt_list (varkw s).
  Proof. reflexivity. Qed.

  (** positional-only parameter at position j *)
  Lemma agree_posonly j p :
    nth_error (posonly s) j = Some p ->
    exists v, dict_get seen (pname p) = Some v /\ dict_get env (pname p) = Some v.
  Proof.
    intros Hj. destruct env_shape as (d1 & d2 & d3 & E1 & E2 & E3 & Eenv).
    pose proof (wf_names _ _ Hwf) as Hnd.
    assert (NoDup (map pname (posonly s))) as Hnd1.
    { rewrite names_split in Hnd. eapply NoDup_app_l; eauto. }
    destruct (bind_positionals_get _ _ _ _ _ _ _ _ E1 Hnd1 Hj) as [Hget Hsome]. cbn in Hget, Hsome.
    assert (dict_get kwargs (pname p) = None) as Hkw.
    { unfold kf_C05_posonly in Hpos.
      assert (dict_has kwargs (pname p) = false) as H.
      { destruct (dict_has kwargs (pname p)) eqn:E; auto.
        assert (existsb (fun p0 => dict_has kwargs (pname p0)) (posonly s) = true) as Hx.
        { apply existsb_exists. exists p. split; auto. eapply nth_error_In; eauto. }
        congruence. }
      unfold dict_has in H. destruct (dict_get kwargs (pname p)); [discriminate|reflexivity]. }
    assert (index_of (pname p) (sig_names s) = Some j) as Hidx.
    { apply index_of_nth; auto. rewrite names_split. rewrite nth_error_app1.
      - now apply nth_error_map_pname.
      - rewrite map_length. apply nth_error_Some. congruence. }
    assert (In p (named_params s)) as Hin.
    { unfold named_params. apply in_or_app. left. eapply nth_error_In; eauto. }
    rewrite seen_get, Hkw, Hidx. cbn zeta. rewrite (default_get _ Hin).
    rewrite Eenv, dict_get_app, Hget.
    unfold bind_positional in *. cbn [andb] in *.
    destruct (nth_error args j) as [a|].
    - exists a. auto.
    - destruct (pdefault p) as [v|]; [|congruence]. exists v. auto.
  Qed.

  (** positional-or-keyword parameter at position j *)
  Lemma agree_poskw j p :
    nth_error (poskw s) j = Some p ->
    exists v, dict_get seen (pname p) = Some v /\ dict_get env (pname p) = Some v.
  Proof.
    intros Hj. destruct env_shape as (d1 & d2 & d3 & E1 & E2 & E3 & Eenv).
    pose proof (wf_names _ _ Hwf) as Hnd. rewrite names_split in Hnd.
    assert (NoDup (map pname (poskw s))) as Hnd2.
    { apply NoDup_app_r in Hnd. eapply NoDup_app_l; eauto. }
    destruct (bind_positionals_get _ _ _ _ _ _ _ _ E2 Hnd2 Hj) as [Hget Hsome].
    assert (In (pname p) (map pname (poskw s))) as Hinn.
    { apply in_map. eapply nth_error_In; eauto. }
    assert (dict_get d1 (pname p) = None) as Hd1.
    { apply not_in_keys_get. rewrite (bind_positionals_keys _ _ _ _ _ _ E1).
      intro H. eapply (NoDup_app_disjoint _ _ _ Hnd H). apply in_or_app. auto. }
    assert (index_of (pname p) (sig_names s) = Some (List.length (posonly s) + j)) as Hidx.
    { apply index_of_nth; [apply (wf_names _ _ Hwf)|]. rewrite names_split.
      replace (List.length (posonly s)) with (List.length (map pname (posonly s))) by apply map_length.
      rewrite nth_error_app_right. rewrite nth_error_app1.
      - now apply nth_error_map_pname.
      - rewrite map_length. apply nth_error_Some. congruence. }
    assert (In p (named_params s)) as Hin.
    { unfold named_params. apply in_or_app. right. apply in_or_app. left. eapply nth_error_In; eauto. }
    rewrite seen_get, Hidx. cbn zeta. rewrite (default_get _ Hin).
    rewrite Eenv, dict_get_app, Hd1, dict_get_app, Hget.
    unfold bind_positional in *. cbn [andb] in *. unfold dict_has in *.
    destruct (nth_error args (List.length (posonly s) + j)) as [a|].
    - destruct (dict_get kwargs (pname p)); [congruence|]. exists a. auto.
    - destruct (dict_get kwargs (pname p)) as [v|]; [exists v; auto|].
      destruct (pdefault p) as [v|]; [|congruence]. exists v. auto.
  Qed.

  (** keyword-only parameter at position j *)
  Lemma agree_kwonly j p :
    nth_error (kwonly s) j = Some p ->
    exists v, dict_get seen (pname p) = Some v /\ dict_get env (pname p) = Some v.
  Proof.
    intros Hj. destruct env_shape as (d1 & d2 & d3 & E1 & E2 & E3 & Eenv).
    pose proof (wf_names _ _ Hwf) as Hnd. rewrite names_split in Hnd.
    assert (In p (kwonly s)) as Hinp by (eapply nth_error_In; eauto).
    assert (In (pname p) (map pname (kwonly s))) as Hinn by (now apply in_map).
    assert (NoDup (map pname (kwonly s))) as Hnd3.
    { do 3 apply NoDup_app_r in Hnd. eapply NoDup_app_l; eauto. }
    destruct (bind_kwonlys_get _ _ _ _ E3 Hnd3 Hinp) as [Hget Hsome].
    assert (In (pname p) (opt_list (varpos s) ++ map pname (kwonly s) ++ opt_list (varkw s))) as Hin3.
    { apply in_or_app. right. apply in_or_app. auto. }
    assert (dict_get d1 (pname p) = None) as Hd1.
    { apply not_in_keys_get. rewrite (bind_positionals_keys _ _ _ _ _ _ E1).
      intro H. eapply (NoDup_app_disjoint _ _ _ Hnd H). apply in_or_app. right. exact Hin3. }
    assert (dict_get d2 (pname p) = None) as Hd2.
    { apply not_in_keys_get. rewrite (bind_positionals_keys _ _ _ _ _ _ E2).
      apply NoDup_app_r in Hnd. intro H. eapply (NoDup_app_disjoint _ _ _ Hnd H). exact Hin3. }
    assert (dict_get (map (fun n => (n, PTuple (skipn (n_positional s) args))) (opt_list (varpos s)))
                     (pname p) = None) as Hvp.
    { apply not_in_keys_get. unfold dict_keys. rewrite map_map. cbn [fst]. rewrite map_id.
      do 2 apply NoDup_app_r in Hnd. intro H. eapply (NoDup_app_disjoint _ _ _ Hnd H).
      apply in_or_app. auto. }
    set (i0 := n_positional s + List.length (opt_list (varpos s))).
    assert (index_of (pname p) (sig_names s) = Some (i0 + j)) as Hidx.
    { apply index_of_nth; [apply (wf_names _ _ Hwf)|]. rewrite names_split.
      rewrite !app_assoc.
      replace i0 with (List.length ((map pname (posonly s) ++ map pname (poskw s)) ++ opt_list (varpos s))).
      2:{ unfold i0, n_positional. rewrite !app_length, !map_length. reflexivity. }
      rewrite <- app_assoc. rewrite nth_error_app_right. rewrite nth_error_app1.
      - now apply nth_error_map_pname.
      - rewrite map_length. apply nth_error_Some. congruence. }
    assert (In p (named_params s)) as Hin.
    { unfold named_params. apply in_or_app. right. apply in_or_app. right. exact Hinp. }
    rewrite seen_get, Hidx. cbn zeta. rewrite (default_get _ Hin).
    rewrite Eenv, dict_get_app, Hd1, dict_get_app, Hd2, dict_get_app, Hvp, dict_get_app, Hget.
    unfold bind_kwonly in *.
    destruct (dict_get kwargs (pname p)) as [v|] eqn:Ekw; [exists v; auto|].
    assert (Nat.ltb (i0 + j) (List.length args) = false) as Hlt.
    { eapply kwonly_hit_false; eauto. unfold dict_has. now rewrite Ekw. }
    assert (nth_error args (i0 + j) = None) as ->.
    { apply nth_error_None. apply Nat.ltb_ge in Hlt. exact Hlt. }
    destruct (pdefault p) as [v|]; [|congruence]. exists v. auto.
  Qed.

  Lemma reserved_seen n v :
    reserved n = true -> dict_get (r0 args kwargs) n = Some v -> dict_get seen n = Some v.
  Proof.
    intros Hr Hv. rewrite seen_get.
    assert (dict_get kwargs n = None) as ->.
    { apply not_in_keys_get. intro H. apply (wf_kw_unreserved _ _ Hwf) in H. congruence. }
    assert (~ In n (sig_names s)) as Hnin.
    { intro H. apply (wf_names_unreserved _ _ Hwf) in H. congruence. }
    assert (index_of n (sig_names s) = None) as -> by (now apply index_of_none).
    cbn zeta.
    assert (dict_get (sig_defaults s) n = None) as ->.
    { apply not_in_keys_get. intro H. apply defaults_of_keys_incl in H. apply Hnin.
      unfold named_params in H. rewrite !map_app in H. rewrite names_split.
      apply in_app_or in H as [H|H]; [apply in_or_app; auto|].
      apply in_app_or in H as [H|H]; apply in_or_app; right; apply in_or_app; [auto|].
      right. apply in_or_app. right. apply in_or_app. auto. }
    exact Hv.
  Qed.

  Theorem agree : spec_C05 s args kwargs seen env = true.
  Proof.
    unfold spec_C05. rewrite !andb_true_iff. repeat split.
    - unfold agree_on. apply forallb_forall. intros n Hn.
      unfold named_params in Hn. rewrite !map_app in Hn.
      assert (exists v, dict_get seen n = Some v /\ dict_get env n = Some v) as (v & -> & ->).
      { apply in_app_or in Hn as [Hn|Hn]; [|apply in_app_or in Hn as [Hn|Hn]];
          apply in_map_pname_nth in Hn as (j & p & Hj & <-).
        - eapply agree_posonly; eauto.
        - eapply agree_poskw; eauto.
        - eapply agree_kwonly; eauto. }
      apply pv_eqb_refl.
    - rewrite (reserved_seen "_ARGS" (PTuple args)) by reflexivity. apply pv_eqb_refl.
    - rewrite (reserved_seen "_KWARGS" (PDict kwargs)) by reflexivity. apply pv_eqb_refl.
  Qed.
End Agree.
