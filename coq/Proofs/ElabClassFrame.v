(** C17 for class statements: a class statement - its member definitions, the work of the
    meta-class (merging of inherited contracts into the members' checkers, merging of the invariant
    lists), the invariant wrappers, the registration and the class decorators - leaves every list
    cell, function object and class that existed before as it was; module bindings are untouched and
    the registrations only grow. *)
From ICV Require Import Base Bind Checker Elab ElabFrame.
Open Scope string_scope.
Open Scope list_scope.

Definition KeepsC (w0 w : world) : Prop :=
  (forall r, r < List.length (w_heap w0) -> nth_error (w_heap w) r = nth_error (w_heap w0) r)
  /\ (forall f, f < List.length (w_funcs w0) -> nth_error (w_funcs w) f = nth_error (w_funcs w0) f)
  /\ (forall k, k < List.length (w_classes w0) -> nth_error (w_classes w) k = nth_error (w_classes w0) k)
  /\ w_module w = w_module w0
  /\ (exists l, w_registered w = w_registered w0 ++ l)
  /\ List.length (w_heap w0) <= List.length (w_heap w)
  /\ List.length (w_funcs w0) <= List.length (w_funcs w)
  /\ List.length (w_classes w0) <= List.length (w_classes w).

Lemma KeepsC_refl w : KeepsC w w.
Proof. unfold KeepsC. repeat split; auto. exists []. rewrite app_nil_r. reflexivity. Qed.

Lemma Keeps_KeepsC w0 w : Keeps w0 w -> KeepsC w0 w.
Proof.
  intros (A & B & C & D & E & F & G). unfold KeepsC. repeat split; auto.
  - intros k _. rewrite C. reflexivity.
  - exists []. rewrite app_nil_r. exact E.
  - rewrite C. auto.
Qed.

Lemma KeepsC_trans w0 w1 w2 : KeepsC w0 w1 -> KeepsC w1 w2 -> KeepsC w0 w2.
Proof.
  intros (A & B & C & D & (l1 & E) & F & G & H) (A' & B' & C' & D' & (l2 & E') & F' & G' & H').
  unfold KeepsC. repeat split; try lia.
  - intros r Hr. rewrite A' by lia. apply A. exact Hr.
  - intros f Hf. rewrite B' by lia. apply B. exact Hf.
  - intros k Hk. rewrite C' by lia. apply C. exact Hk.
  - congruence.
  - exists (l1 ++ l2). rewrite E', E, app_assoc. reflexivity.
Qed.

Definition fresh_f (w0 : world) (f : nat) : Prop := List.length (w_funcs w0) <= f.

(** only the chain part of [FreshClosed]: what was created since [w0] wraps things created since [w0] *)
Definition FC (w0 w : world) : Prop :=
  forall f fo, fresh_f w0 f -> get_func w f = Some fo -> forall nxt, fo_wrapped fo = Some nxt -> fresh_f w0 nxt.

Lemma FreshClosed_FC w0 w : FreshClosed w0 w -> FC w0 w.
Proof. intros H f fo Hf Hg. destruct (H f fo Hf Hg) as (A & _). exact A. Qed.

Lemma find_checker_from_FC w0 w : FC w0 w ->
  forall fuel cur found,
    fresh_f w0 cur -> (forall x, found = Some x -> fresh_f w0 x) ->
    forall ch, find_checker_from w fuel cur found = Some ch -> fresh_f w0 ch.
Proof.
  intros Hc fuel. induction fuel as [|fuel IH]; intros cur found Hcur Hfound ch H; cbn in H.
  - apply Hfound. exact H.
  - destruct (get_func w cur) as [fo|] eqn:E; [|apply Hfound; exact H].
    pose proof (Hc cur fo Hcur E) as Hw.
    set (found' := if has_lists fo then Some cur else found) in *.
    assert (forall x, found' = Some x -> fresh_f w0 x) as Hf'.
    { unfold found'. destruct (has_lists fo); [intros x Hx; injection Hx as <-; exact Hcur | exact Hfound]. }
    destruct (fo_wrapped fo) as [nxt|] eqn:Ew.
    + eapply IH; [apply Hw; reflexivity | exact Hf' | exact H].
    + apply Hf'. exact H.
Qed.

Lemma find_checker_FC w0 w cur ch : FC w0 w -> fresh_f w0 cur -> find_checker w cur = Some ch -> fresh_f w0 ch.
Proof. intros Hc Hcur H. unfold find_checker in H. eapply find_checker_from_FC; eauto. intros x Hx. discriminate. Qed.

(** ** elementary steps *)
Lemma Keeps_alloc' w0 w c : Keeps w0 w -> Keeps w0 (fst (alloc w c)).
Proof. intro H. apply (Keeps_alloc w0 w c H). Qed.

Lemma FC_alloc w0 w c : FC w0 w -> FC w0 (fst (alloc w c)).
Proof. intros H f fo Hf Hg. rewrite get_func_alloc in Hg. exact (H f fo Hf Hg). Qed.

Lemma FC_add_func w0 w fo :
  FC w0 w -> (forall nxt, fo_wrapped fo = Some nxt -> fresh_f w0 nxt) -> FC w0 (fst (add_func w fo)).
Proof.
  intros H A f fo' Hf Hg.
  destruct (Nat.lt_ge_cases f (List.length (w_funcs w))) as [Hlt|Hge].
  - rewrite get_func_add_func_old in Hg by exact Hlt. exact (H f fo' Hf Hg).
  - assert (f = List.length (w_funcs w)) as ->.
    { apply get_func_bound in Hg. unfold add_func in Hg. cbn in Hg. rewrite app_length in Hg. cbn in Hg. lia. }
    rewrite get_func_add_func_new in Hg. injection Hg as <-. exact A.
Qed.

Lemma get_func_set_func_same w i fo : i < List.length (w_funcs w) -> get_func (set_func w i fo) i = Some fo.
Proof.
  intro H. unfold get_func, set_func. cbn. revert i H. induction (w_funcs w) as [|x l IH]; intros [|i] H; cbn in *; try lia; auto.
  apply IH. lia.
Qed.
Lemma get_func_set_func_other w i j fo : i <> j -> get_func (set_func w i fo) j = get_func w j.
Proof. intro H. unfold get_func, set_func. cbn. apply nth_error_set_nth_other. exact H. Qed.

Lemma Keeps_set_func w0 w i fo : Keeps w0 w -> fresh_f w0 i -> Keeps w0 (set_func w i fo).
Proof.
  intros (A & B & C & D & E & F & G) Hi. unfold Keeps, set_func; cbn. repeat split; auto.
  - intros f Hf. rewrite nth_error_set_nth_other; [apply B; exact Hf|]. unfold fresh_f in Hi. lia.
  - rewrite set_nth_length. exact G.
Qed.

Lemma FC_set_func w0 w i fo :
  FC w0 w -> (forall nxt, fo_wrapped fo = Some nxt -> fresh_f w0 nxt) -> FC w0 (set_func w i fo).
Proof.
  intros H A f fo' Hf Hg. destruct (Nat.eq_dec i f) as [->|Hne].
  - destruct (Nat.lt_ge_cases f (List.length (w_funcs w))) as [Hlt|Hge].
    + rewrite get_func_set_func_same in Hg by exact Hlt. injection Hg as <-. exact A.
    + apply get_func_bound in Hg. unfold set_func in Hg. cbn in Hg. rewrite set_nth_length in Hg. lia.
  - rewrite get_func_set_func_other in Hg by exact Hne. exact (H f fo' Hf Hg).
Qed.

Lemma Keeps_trans w0 w1 w2 : Keeps w0 w1 -> Keeps w1 w2 -> Keeps w0 w2.
Proof.
  intros (A & B & C & D & E & F & G) (A' & B' & C' & D' & E' & F' & G').
  unfold Keeps. repeat split; try congruence; try lia.
  - intros r Hr. rewrite A' by lia. apply A. exact Hr.
  - intros f Hf. rewrite B' by lia. apply B. exact Hf.
Qed.

(** ** member definitions *)
Lemma define_function_good w0 w s a ds w' f :
  Keeps w0 w -> FreshClosed w0 w -> define_function w s a ds = Ok (w', f) -> Good w0 w' f.
Proof.
  intros Hk Hc. unfold define_function. destruct (construction_error (rev ds)); [discriminate|].
  destruct (add_func w _) as [w1 f0] eqn:E. intros H.
  assert (Good w0 w1 f0) as Hg.
  { unfold add_func in E. injection E as <- <-. split; [|split].
    - pose proof (Keeps_add_func w0 w {| fo_role := FOrig; fo_wrapped := None; fo_pre := None; fo_snaps := None;
                                         fo_post := None; fo_sig := s; fo_async := a;
                                         fo_owner := List.length (w_funcs w) |} Hk) as [K _]. exact K.
    - apply (FreshClosed_add_func w0 w); cbn; try discriminate. exact Hc.
    - cbn. destruct Hk as (_ & _ & _ & _ & _ & _ & G). exact G. }
  exact (apply_decos_good w0 ds w1 f0 w' f Hg H).
Qed.

Lemma lookup_in_same_classes w w' ks name : w_classes w = w_classes w' -> lookup_in w ks name = lookup_in w' ks name.
Proof. intro H. induction ks as [|k r IH]; cbn; [reflexivity|]. unfold get_class. rewrite H, IH. reflexivity. Qed.

Lemma class_getattr_same_classes w w' k name : w_classes w = w_classes w' -> class_getattr w k name = class_getattr w' k name.
Proof. intro H. unfold class_getattr, mro_of, get_class. rewrite H. apply lookup_in_same_classes. exact H. Qed.

Lemma base_function_same_classes w w' b key acc : w_classes w = w_classes w' -> base_function w b key acc = base_function w' b key acc.
Proof. intro H. unfold base_function. rewrite (class_getattr_same_classes w w' b key H). reflexivity. Qed.

(** an accessor of a property in the namespace is new, or it is the accessor a direct base shows *)
Definition acc_ok (w0 w : world) (bases : list nat) (key : string) (acc : mkind) (o : option nat) : Prop :=
  match o with
  | None => True
  | Some x => fresh_f w0 x \/ (exists b, In b bases /\ base_function w b key acc = Some (Some x))
  end.

Definition member_ok (w0 w : world) (bases : list nat) (key : string) (m : member) : Prop :=
  match m with
  | MemFunc _ f => fresh_f w0 f
  | MemProp g s d => acc_ok w0 w bases key MGet g /\ acc_ok w0 w bases key MSet s /\ acc_ok w0 w bases key MDel d
  | MemSlot _ => True
  end.

Definition NsOk (w0 w : world) (bases : list nat) (ns : list (string * member)) : Prop :=
  forall key m, In (key, m) ns -> member_ok w0 w bases key m.

Lemma member_ok_same_classes w0 w w' bases key m :
  w_classes w = w_classes w' -> member_ok w0 w bases key m -> member_ok w0 w' bases key m.
Proof.
  intro H. destruct m as [k f|g s d|n]; cbn; auto.
  assert (A : forall acc o, acc_ok w0 w bases key acc o -> acc_ok w0 w' bases key acc o).
  { intros acc [x|]; cbn; auto. intros [Hx|(b & Hb & Hf)]; [left; exact Hx|right].
    exists b. split; [exact Hb|]. rewrite <- (base_function_same_classes w w' b key acc H). exact Hf. }
  intros (A1 & A2 & A3). repeat split; apply A; assumption.
Qed.

Lemma NsOk_same_classes w0 w w' bases ns : w_classes w = w_classes w' -> NsOk w0 w bases ns -> NsOk w0 w' bases ns.
Proof. intros H Hn key m Hin. eapply member_ok_same_classes; [exact H|apply Hn; exact Hin]. Qed.

Lemma ns_get_in ns name m : ns_get ns name = Some m -> In (name, m) ns.
Proof.
  induction ns as [|[n m'] r IH]; cbn; [discriminate|]. destruct (String.eqb n name) eqn:E.
  - intro H. injection H as ->. apply String.eqb_eq in E. subst. left. reflexivity.
  - intro H. right. apply IH. exact H.
Qed.

Lemma ns_set_in ns name m key m' : In (key, m') (ns_set ns name m) -> (key = name /\ m' = m) \/ In (key, m') ns.
Proof.
  induction ns as [|[n x] r IH]; cbn.
  - intros [H|[]]. injection H as <- <-. left. split; reflexivity.
  - destruct (String.eqb n name) eqn:E; cbn.
    + intros [H|H]; [injection H as <- <-; left; apply String.eqb_eq in E; auto|right; right; exact H].
    + intros [H|H]; [right; left; exact H|]. apply IH in H. destruct H; [left; assumption|right; right; assumption].
Qed.

Lemma prop_start_ok w0 w bases inherit ns name k p :
  NsOk w0 w bases ns -> prop_start w bases inherit ns name k = Ok (Some p) -> member_ok w0 w bases name p.
Proof.
  intros Hn. unfold prop_start. destruct k; try discriminate.
  all: destruct (ns_get ns name) as [m|] eqn:E;
       [intro H; injection H as <-; apply Hn; apply ns_get_in; exact E|];
       destruct inherit as [j|]; [|discriminate]; destruct (nth_error bases j) as [b|] eqn:Nb; [|discriminate];
       apply nth_error_In in Nb;
       destruct (class_getattr w b name) as [[kk f|g s d|n]|] eqn:G; try discriminate;
       intro H; injection H as <-; cbn;
       assert (B : forall acc, base_function w b name acc =
                  match acc with MGet => option_map Some g | MSet => option_map Some s | MDel => option_map Some d | _ => Some None end)
         by (intro acc; unfold base_function; rewrite G; reflexivity);
       repeat split;
       [destruct g as [x|]; cbn; auto; right; exists b; split; [exact Nb|rewrite B; reflexivity]
       |destruct s as [x|]; cbn; auto; right; exists b; split; [exact Nb|rewrite B; reflexivity]
       |destruct d as [x|]; cbn; auto; right; exists b; split; [exact Nb|rewrite B; reflexivity]].
Qed.

Lemma ns_add_ok w0 w bases start ns name k f :
  NsOk w0 w bases ns -> fresh_f w0 f ->
  match start with Some p => member_ok w0 w bases name p | None => True end ->
  NsOk w0 w bases (ns_add start ns name k f).
Proof.
  intros Hn Hf Hs key m Hin. unfold ns_add in Hin.
  destruct k; apply ns_set_in in Hin; destruct Hin as [[-> ->]|Hin]; try (apply Hn; exact Hin); cbn; auto.
  - destruct start as [[kk f0|g s d|n]|]; cbn in *; try (repeat split; cbn; auto; fail).
    destruct Hs as (_ & A2 & A3). repeat split; cbn; auto.
  - destruct start as [[kk f0|g s d|n]|]; cbn in *; try (repeat split; cbn; auto; fail).
    destruct Hs as (A1 & _ & A3). repeat split; cbn; auto.
  - destruct start as [[kk f0|g s d|n]|]; cbn in *; try (repeat split; cbn; auto; fail).
    destruct Hs as (A1 & A2 & _). repeat split; cbn; auto.
Qed.

Lemma define_members_good w0 bases : forall ms w ns w' ns',
  Keeps w0 w -> FreshClosed w0 w -> NsOk w0 w bases ns ->
  define_members w bases ms ns = Ok (w', ns') ->
  Keeps w0 w' /\ FreshClosed w0 w' /\ NsOk w0 w' bases ns'.
Proof.
  induction ms as [|m rest IH]; intros w ns w' ns' Hk Hc Hn H; cbn [define_members] in H.
  - injection H as <- <-. auto.
  - destruct (prop_start w bases (md_inherit m) ns (md_name m) (md_kind m)) as [start|e] eqn:Ps; cbn [bind] in H; [|discriminate].
    destruct (define_function w (md_sig m) (md_async m) (md_decos m)) as [[w1 f]|e] eqn:Df; cbn [bind fst snd] in H; [|discriminate].
    destruct (define_function_good w0 w _ _ _ w1 f Hk Hc Df) as (Hk1 & Hc1 & Hf).
    assert (Hcl : w_classes w = w_classes w1).
    { destruct Hk as (_ & _ & C & _). destruct Hk1 as (_ & _ & C1 & _). congruence. }
    eapply IH; [exact Hk1|exact Hc1| |exact H].
    apply NsOk_same_classes with (w := w); [exact Hcl|].
    apply ns_add_ok; [exact Hn|exact Hf|].
    destruct start as [p|]; [|exact I]. eapply prop_start_ok; [exact Hn|exact Ps].
Qed.

(** ** the meta-class: merging inherited contracts into the members' checkers *)
Lemma decorate_with_checker_FC w0 w cur w' ch :
  Keeps w0 w -> FC w0 w -> fresh_f w0 cur -> decorate_with_checker w cur = Ok (w', ch) ->
  Keeps w0 w' /\ FC w0 w' /\ fresh_f w0 ch /\ List.length (w_funcs w) <= ch.
Proof.
  intros Hk Hc Hcur H. unfold decorate_with_checker in H.
  destruct (get_func w cur) as [fo|]; [|discriminate]. destruct (sig_reserved (fo_sig fo)); [discriminate|].
  destruct (alloc w []) as [w1 rp] eqn:E1. destruct (alloc w1 []) as [w2 rs] eqn:E2. destruct (alloc w2 []) as [w3 rq] eqn:E3.
  assert (K1 : Keeps w0 w1) by (replace w1 with (fst (alloc w [])) by (rewrite E1; reflexivity); apply Keeps_alloc'; exact Hk).
  assert (K2 : Keeps w0 w2) by (replace w2 with (fst (alloc w1 [])) by (rewrite E2; reflexivity); apply Keeps_alloc'; exact K1).
  assert (K3 : Keeps w0 w3) by (replace w3 with (fst (alloc w2 [])) by (rewrite E3; reflexivity); apply Keeps_alloc'; exact K2).
  assert (C3 : FC w0 w3).
  { replace w3 with (fst (alloc w2 [])) by (rewrite E3; reflexivity). apply FC_alloc.
    replace w2 with (fst (alloc w1 [])) by (rewrite E2; reflexivity). apply FC_alloc.
    replace w1 with (fst (alloc w [])) by (rewrite E1; reflexivity). apply FC_alloc. exact Hc. }
  assert (F3 : w_funcs w3 = w_funcs w).
  { unfold alloc in E1, E2, E3. injection E1 as <- _. injection E2 as <- _. injection E3 as <- _. reflexivity. }
  match type of H with Ok (add_func w3 ?fo') = _ =>
    destruct (Keeps_add_func w0 w3 fo' K3) as [K4 N4];
    pose proof (FC_add_func w0 w3 fo' C3) as C4 end.
  injection H as <- <-. split; [exact K4|]. split; [|split].
  - apply C4. cbn. intros nxt Hn. injection Hn as <-. exact Hcur.
  - exact N4.
  - cbn. rewrite F3. lia.
Qed.

Lemma copy_groups_good w0 : forall gs w w' gs',
  Keeps w0 w -> FC w0 w -> copy_groups w gs = (w', gs') ->
  Keeps w0 w' /\ FC w0 w' /\ (forall f, get_func w' f = get_func w f).
Proof.
  induction gs as [|g r IH]; intros w w' gs' Hk Hc H; cbn [copy_groups] in H.
  - injection H as <- <-. auto.
  - destruct (alloc w (deref w g)) as [w1 g1] eqn:E1. destruct (copy_groups w1 r) as [w2 r2] eqn:E2.
    injection H as <- <-.
    assert (K1 : Keeps w0 w1) by (replace w1 with (fst (alloc w (deref w g))) by (rewrite E1; reflexivity); apply Keeps_alloc'; exact Hk).
    assert (C1 : FC w0 w1) by (replace w1 with (fst (alloc w (deref w g))) by (rewrite E1; reflexivity); apply FC_alloc; exact Hc).
    destruct (IH w1 w2 r2 K1 C1 E2) as (K2 & C2 & G2). split; [exact K2|]. split; [exact C2|].
    intro f. rewrite G2. replace w1 with (fst (alloc w (deref w g))) by (rewrite E1; reflexivity). apply get_func_alloc.
Qed.

Lemma decorate_namespace_fn_good w0 w bases dbc key acc f w' f' :
  Keeps w0 w -> FC w0 w -> fresh_f w0 f -> decorate_namespace_fn w bases dbc key acc f = Ok (w', f') ->
  Keeps w0 w' /\ FC w0 w' /\ fresh_f w0 f'.
Proof.
  intros Hk Hc Hf H. unfold decorate_namespace_fn in H.
  destruct (lists_of_checker w (find_checker w f)) as [[own_g own_s] own_p].
  match type of H with bind ?r _ = _ => destruct r as [[[[bgs ogs] ss] ps]|e]; cbn [bind] in H; [|discriminate] end.
  destruct (is_nil (bgs ++ ogs) && is_nil ps); [injection H as <- <-; auto|].
  destruct (find_checker w f) as [ch|] eqn:Fc.
  - (* the member has its own checker: the merged lists are assigned to it *)
    cbn [bind] in H. pose proof (find_checker_FC w0 w f ch Hc Hf Fc) as Hch.
    destruct (get_func w ch) as [chf|] eqn:G; [|discriminate].
    destruct (copy_groups w bgs) as [wc bgs'] eqn:E0.
    destruct (copy_groups_good w0 bgs w wc bgs' Hk Hc E0) as (Kc & Cc & Gc).
    destruct (alloc wc (map IGroup (bgs' ++ ogs))) as [w2 rp] eqn:E1. destruct (alloc w2 (map ISnapshot ss)) as [w3 rs] eqn:E2.
    destruct (alloc w3 (map IContract ps)) as [w4 rq] eqn:E3. injection H as <- <-.
    assert (K4 : Keeps w0 w4).
    { replace w4 with (fst (alloc w3 (map IContract ps))) by (rewrite E3; reflexivity). apply Keeps_alloc'.
      replace w3 with (fst (alloc w2 (map ISnapshot ss))) by (rewrite E2; reflexivity). apply Keeps_alloc'.
      replace w2 with (fst (alloc wc (map IGroup (bgs' ++ ogs)))) by (rewrite E1; reflexivity). apply Keeps_alloc'. exact Kc. }
    assert (C4 : FC w0 w4).
    { replace w4 with (fst (alloc w3 (map IContract ps))) by (rewrite E3; reflexivity). apply FC_alloc.
      replace w3 with (fst (alloc w2 (map ISnapshot ss))) by (rewrite E2; reflexivity). apply FC_alloc.
      replace w2 with (fst (alloc wc (map IGroup (bgs' ++ ogs)))) by (rewrite E1; reflexivity). apply FC_alloc. exact Cc. }
    split; [apply Keeps_set_func; assumption|]. split; [|exact Hf].
    apply FC_set_func; [exact C4|]. cbn. intros nxt Hn. exact (Hc ch chf Hch G nxt Hn).
  - (* no checker yet: one is created around the member *)
    destruct (decorate_with_checker w f) as [[w1 ch]|e] eqn:D; cbn [bind fst snd] in H; [|discriminate].
    destruct (decorate_with_checker_FC w0 w f w1 ch Hk Hc Hf D) as (K1 & C1 & Hch & _).
    destruct (get_func w1 ch) as [chf|] eqn:G; [|discriminate].
    destruct (copy_groups w1 bgs) as [wc bgs'] eqn:E0.
    destruct (copy_groups_good w0 bgs w1 wc bgs' K1 C1 E0) as (Kc & Cc & Gc).
    destruct (alloc wc (map IGroup (bgs' ++ ogs))) as [w2 rp] eqn:E1. destruct (alloc w2 (map ISnapshot ss)) as [w3 rs] eqn:E2.
    destruct (alloc w3 (map IContract ps)) as [w4 rq] eqn:E3. injection H as <- <-.
    assert (K4 : Keeps w0 w4).
    { replace w4 with (fst (alloc w3 (map IContract ps))) by (rewrite E3; reflexivity). apply Keeps_alloc'.
      replace w3 with (fst (alloc w2 (map ISnapshot ss))) by (rewrite E2; reflexivity). apply Keeps_alloc'.
      replace w2 with (fst (alloc wc (map IGroup (bgs' ++ ogs)))) by (rewrite E1; reflexivity). apply Keeps_alloc'. exact Kc. }
    assert (C4 : FC w0 w4).
    { replace w4 with (fst (alloc w3 (map IContract ps))) by (rewrite E3; reflexivity). apply FC_alloc.
      replace w3 with (fst (alloc w2 (map ISnapshot ss))) by (rewrite E2; reflexivity). apply FC_alloc.
      replace w2 with (fst (alloc wc (map IGroup (bgs' ++ ogs)))) by (rewrite E1; reflexivity). apply FC_alloc. exact Cc. }
    split; [apply Keeps_set_func; assumption|]. split; [|exact Hch].
    apply FC_set_func; [exact C4|]. cbn. intros nxt Hn. exact (C1 ch chf Hch G nxt Hn).
Qed.

Lemma Keeps_classes w0 w : Keeps w0 w -> w_classes w = w_classes w0.
Proof. intros (_ & _ & C & _). exact C. Qed.

Lemma decorate_opt_good w0 w bases dbc key acc o w' o' :
  Keeps w0 w -> FC w0 w -> acc_ok w0 w bases key acc o -> decorate_opt w bases dbc key acc o = Ok (w', o') ->
  Keeps w0 w' /\ FC w0 w'.
Proof.
  intros Hk Hc Ho H. unfold decorate_opt in H. destruct o as [x|]; [|injection H as <- <-; auto].
  destruct (existsb _ bases) eqn:E; [injection H as <- <-; auto|].
  cbn in Ho. destruct Ho as [Hx|(b & Hb & Hf)].
  - destruct (decorate_namespace_fn w bases dbc key acc x) as [[w1 f1]|e] eqn:D; cbn [bind] in H; [|discriminate].
    injection H as <- <-. destruct (decorate_namespace_fn_good w0 w bases dbc key acc x w1 f1 Hk Hc Hx D) as (A & B & _). auto.
  - (* the accessor of a direct base: the test above has found it *)
    exfalso. assert (T : existsb (fun b0 => match base_function w b0 key acc with
                                            | Some (Some y) => Nat.eqb x y
                                            | _ => false end) bases = true).
    { apply existsb_exists. exists b. split; [exact Hb|]. rewrite Hf. apply Nat.eqb_refl. }
    rewrite T in E. discriminate.
Qed.

Lemma dbc_decorate_members_good w0 bases dbc : forall todo w ns w' ns',
  Keeps w0 w -> FC w0 w -> (forall key m, In (key, m) todo -> member_ok w0 w bases key m) ->
  dbc_decorate_members w bases dbc todo ns = Ok (w', ns') -> Keeps w0 w' /\ FC w0 w'.
Proof.
  induction todo as [|[key m] rest IH]; intros w ns w' ns' Hk Hc Hm H; cbn [dbc_decorate_members] in H.
  - injection H as <- <-. auto.
  - assert (Step : forall w1, Keeps w0 w1 -> forall key' m', In (key', m') rest -> member_ok w0 w1 bases key' m').
    { intros w1 K1 key' m' Hin. apply member_ok_same_classes with (w := w).
      - rewrite (Keeps_classes w0 w Hk), (Keeps_classes w0 w1 K1). reflexivity.
      - apply Hm. right. exact Hin. }
    pose proof (Hm key m (or_introl eq_refl)) as Hmk.
    destruct m as [k f|g s d|n].
    + destruct (decorate_namespace_fn w bases dbc key k f) as [[w1 f1]|e] eqn:D; cbn [bind fst snd] in H; [|discriminate].
      destruct (decorate_namespace_fn_good w0 w bases dbc key k f w1 f1 Hk Hc Hmk D) as (K1 & C1 & _).
      eapply IH; [exact K1|exact C1|apply Step; exact K1|exact H].
    + destruct Hmk as (Ag & As & Ad).
      destruct (decorate_opt w bases dbc key MGet g) as [[w1 g1]|e] eqn:Dg; cbn [bind fst snd] in H; [|discriminate].
      destruct (decorate_opt_good w0 w bases dbc key MGet g w1 g1 Hk Hc Ag Dg) as (K1 & C1).
      assert (E1 : w_classes w = w_classes w1) by (rewrite (Keeps_classes w0 w Hk), (Keeps_classes w0 w1 K1); reflexivity).
      destruct (decorate_opt w1 bases dbc key MSet s) as [[w2 s1]|e] eqn:Ds; cbn [bind fst snd] in H; [|discriminate].
      assert (As1 : acc_ok w0 w1 bases key MSet s).
      { pose proof (member_ok_same_classes w0 w w1 bases key (MemProp None s None) E1) as T. cbn in T. apply T. auto. }
      destruct (decorate_opt_good w0 w1 bases dbc key MSet s w2 s1 K1 C1 As1 Ds) as (K2 & C2).
      assert (E2 : w_classes w = w_classes w2) by (rewrite (Keeps_classes w0 w Hk), (Keeps_classes w0 w2 K2); reflexivity).
      destruct (decorate_opt w2 bases dbc key MDel d) as [[w3 d1]|e] eqn:Dd; cbn [bind fst snd] in H; [|discriminate].
      assert (Ad2 : acc_ok w0 w2 bases key MDel d).
      { pose proof (member_ok_same_classes w0 w w2 bases key (MemProp None None d) E2) as T. cbn in T. apply T. auto. }
      destruct (decorate_opt_good w0 w2 bases dbc key MDel d w3 d1 K2 C2 Ad2 Dd) as (K3 & C3).
      eapply IH; [exact K3|exact C3|apply Step; exact K3|exact H].
    + eapply IH; [exact Hk|exact Hc|apply Step; exact Hk|exact H].
Qed.

(** ** after the class object exists: wrappers, registration, class decorators *)
Lemma KeepsC_add_func w0 w fo : KeepsC w0 w -> KeepsC w0 (fst (add_func w fo)).
Proof.
  intros (A & B & C & D & E & F & G & H). unfold KeepsC, add_func; cbn. repeat split; auto.
  - intros f Hf. rewrite nth_error_app1 by lia. apply B. exact Hf.
  - rewrite app_length. cbn. lia.
Qed.

Lemma KeepsC_alloc w0 w c : KeepsC w0 w -> KeepsC w0 (fst (alloc w c)).
Proof.
  intros (A & B & C & D & E & F & G & H). unfold KeepsC, alloc; cbn. repeat split; auto.
  - intros r Hr. rewrite nth_error_app1 by lia. apply A. exact Hr.
  - rewrite app_length. cbn. lia.
Qed.

Lemma KeepsC_set_class w0 w k c : KeepsC w0 w -> List.length (w_classes w0) <= k -> KeepsC w0 (set_class w k c).
Proof.
  intros (A & B & C & D & E & F & G & H) Hk. unfold KeepsC, set_class; cbn. repeat split; auto.
  - intros j Hj. rewrite nth_error_set_nth_other by lia. apply C. exact Hj.
  - rewrite set_nth_length. exact H.
Qed.

Lemma KeepsC_heap_append w0 w r x : KeepsC w0 w -> List.length (w_heap w0) <= r -> KeepsC w0 (heap_append w r x).
Proof.
  intros (A & B & C & D & E & F & G & H) Hr. unfold KeepsC, heap_append; cbn. repeat split; auto.
  - intros j Hj. rewrite nth_error_set_nth_other by lia. apply A. exact Hj.
  - rewrite set_nth_length. exact F.
Qed.

Lemma KeepsC_wrap w0 w role cur w' n : KeepsC w0 w -> wrap w role cur = Some (w', n) -> KeepsC w0 w'.
Proof.
  intros Hk H. unfold wrap in H. destruct (get_func w cur) as [fo|]; [|discriminate].
  match type of H with Some (add_func w ?fo') = _ => pose proof (KeepsC_add_func w0 w fo' Hk) as K end.
  injection H as <- _. exact K.
Qed.

Lemma KeepsC_decorate_with_invariants w0 w f b : KeepsC w0 w -> KeepsC w0 (fst (decorate_with_invariants w f b)).
Proof.
  intro Hk. unfold decorate_with_invariants. destruct (already_inv_wrapped w _ f); [exact Hk|].
  destruct (wrap w (FInvWrap b) f) as [[w1 n]|] eqn:E; [|exact Hk]. cbn. eapply KeepsC_wrap; eauto.
Qed.

Lemma KeepsC_decorate_inv_opt w0 w o : KeepsC w0 w -> KeepsC w0 (fst (decorate_inv_opt w o)).
Proof.
  intro Hk. unfold decorate_inv_opt. destruct o as [x|]; [|exact Hk].
  pose proof (KeepsC_decorate_with_invariants w0 w x false Hk) as K.
  destruct (decorate_with_invariants w x false) as [w1 y]. exact K.
Qed.

Lemma KeepsC_class_ns_set w0 w k name m : KeepsC w0 w -> List.length (w_classes w0) <= k -> KeepsC w0 (class_ns_set w k name m).
Proof. intros Hk Hn. unfold class_ns_set. destruct (get_class w k); [apply KeepsC_set_class; assumption|exact Hk]. Qed.

Lemma KeepsC_class_ns_set_if w0 w k name ch m :
  KeepsC w0 w -> List.length (w_classes w0) <= k -> KeepsC w0 (class_ns_set_if w k name ch m).
Proof. intros Hk Hn. unfold class_ns_set_if. destruct (ch || in_own_ns w k name); [apply KeepsC_class_ns_set; assumption|exact Hk]. Qed.

Lemma KeepsC_slot_function w0 w name : KeepsC w0 w -> KeepsC w0 (fst (slot_function w name)).
Proof. intro Hk. unfold slot_function. apply KeepsC_add_func. exact Hk. Qed.

Lemma KeepsC_wrap_member w0 w k name : KeepsC w0 w -> List.length (w_classes w0) <= k -> KeepsC w0 (wrap_member w k name).
Proof.
  intros Hk Hn. unfold wrap_member.
  destruct (str_in name _); [exact Hk|].
  destruct (negb (String.eqb name "__setattr__") && negb (negb (is_nil (class_invs w k LCall)))); [exact Hk|].
  destruct (String.eqb name "__setattr__" && negb (negb (is_nil (class_invs w k LSet)))); [exact Hk|].
  destruct (is_private name); [exact Hk|].
  destruct (class_getattr w k name) as [[kd f|g s d|n]|]; try exact Hk.
  - destruct kd; try exact Hk.
    pose proof (KeepsC_decorate_with_invariants w0 w f false Hk) as K.
    destruct (decorate_with_invariants w f false) as [w1 f']. apply KeepsC_class_ns_set_if; assumption.
  - pose proof (KeepsC_decorate_inv_opt w0 w g Hk) as K1. destruct (decorate_inv_opt w g) as [w1 g'].
    pose proof (KeepsC_decorate_inv_opt w0 w1 s K1) as K2. destruct (decorate_inv_opt w1 s) as [w2 s'].
    pose proof (KeepsC_decorate_inv_opt w0 w2 d K2) as K3. destruct (decorate_inv_opt w2 d) as [w3 d'].
    apply KeepsC_class_ns_set_if; assumption.
  - pose proof (KeepsC_slot_function w0 w name Hk) as K0. destruct (slot_function w name) as [wa f].
    pose proof (KeepsC_decorate_with_invariants w0 wa f false K0) as K1.
    destruct (decorate_with_invariants wa f false) as [w1 f']. apply KeepsC_class_ns_set; assumption.
Qed.

Lemma KeepsC_wrap_constructor w0 w k : KeepsC w0 w -> List.length (w_classes w0) <= k -> KeepsC w0 (wrap_constructor w k).
Proof.
  intros Hk Hn. unfold wrap_constructor.
  destruct (class_getattr w k "__init__") as [[kd f|g s d|n]|]; try exact Hk.
  - destruct kd; try exact Hk.
    pose proof (KeepsC_decorate_with_invariants w0 w f true Hk) as K.
    destruct (decorate_with_invariants w f true) as [w1 f']. apply KeepsC_class_ns_set_if; assumption.
  - destruct (has_own_new w k).
    + destruct (class_getattr w k "__new__") as [[kd f|g s d|n']|]; try exact Hk.
      destruct (already_inv_wrapped w _ f); [exact Hk|].
      destruct (wrap w FNewWrap f) as [[w1 f']|] eqn:E; [|exact Hk].
      apply KeepsC_class_ns_set; [eapply KeepsC_wrap; eauto|exact Hn].
    + pose proof (KeepsC_slot_function w0 w "__init__" Hk) as K0. destruct (slot_function w "__init__") as [wa f].
      pose proof (KeepsC_decorate_with_invariants w0 wa f true K0) as K1.
      destruct (decorate_with_invariants wa f true) as [w1 f']. apply KeepsC_class_ns_set; assumption.
Qed.

Lemma KeepsC_fold_wrap_member w0 k : forall names w,
  KeepsC w0 w -> List.length (w_classes w0) <= k -> KeepsC w0 (fold_left (fun acc name => wrap_member acc k name) names w).
Proof.
  induction names as [|n r IH]; intros w Hk Hn; cbn; [exact Hk|]. apply IH; [apply KeepsC_wrap_member; assumption|exact Hn].
Qed.

Lemma KeepsC_add_invariant_checks w0 w k :
  KeepsC w0 w -> List.length (w_classes w0) <= k -> KeepsC w0 (add_invariant_checks w k).
Proof.
  intros Hk Hn. unfold add_invariant_checks. apply KeepsC_fold_wrap_member; [apply KeepsC_wrap_constructor; assumption|exact Hn].
Qed.

(** what [class_inv] depends on *)
Definition inv_view (w : world) := map (fun c => (co_mro c, co_inv c, co_inv_call c, co_inv_set c)) (w_classes w).

Lemma lookup_inv_in_view w w' which : inv_view w = inv_view w' -> forall ks, lookup_inv_in w ks which = lookup_inv_in w' ks which.
Proof.
  intros H ks. induction ks as [|k r IH]; cbn; [reflexivity|]. unfold get_class.
  assert (E : option_map (fun c => (co_mro c, co_inv c, co_inv_call c, co_inv_set c)) (nth_error (w_classes w) k)
            = option_map (fun c => (co_mro c, co_inv c, co_inv_call c, co_inv_set c)) (nth_error (w_classes w') k)).
  { rewrite <- !nth_error_map. unfold inv_view in H. rewrite H. reflexivity. }
  destruct (nth_error (w_classes w) k) as [c|], (nth_error (w_classes w') k) as [c'|]; cbn in E; try discriminate.
  - injection E as E1 E2 E3 E4. unfold own_inv. destruct which; rewrite ?E2, ?E3, ?E4;
      [destruct (co_inv c')|destruct (co_inv_call c')|destruct (co_inv_set c')]; auto.
  - exact IH.
Qed.

Lemma class_inv_view w w' k which : inv_view w = inv_view w' -> class_inv w k which = class_inv w' k which.
Proof.
  intro H. unfold class_inv, mro_of, get_class.
  assert (E : option_map (fun c => (co_mro c, co_inv c, co_inv_call c, co_inv_set c)) (nth_error (w_classes w) k)
            = option_map (fun c => (co_mro c, co_inv c, co_inv_call c, co_inv_set c)) (nth_error (w_classes w') k)).
  { rewrite <- !nth_error_map. unfold inv_view in H. rewrite H. reflexivity. }
  destruct (nth_error (w_classes w) k) as [c|], (nth_error (w_classes w') k) as [c'|]; cbn in E; try discriminate.
  - injection E as E1 _ _ _. rewrite E1. apply lookup_inv_in_view. exact H.
  - apply lookup_inv_in_view. exact H.
Qed.

Lemma map_set_nth_same {A B} (f : A -> B) (l : list A) i x :
  (forall y, nth_error l i = Some y -> f y = f x) -> map f (set_nth l i x) = map f l.
Proof.
  revert i. induction l as [|a r IH]; intros [|i] H; cbn; auto.
  - rewrite (H a eq_refl). reflexivity.
  - f_equal. apply IH. exact H.
Qed.

Lemma inv_view_class_ns_set w k name m : inv_view (class_ns_set w k name m) = inv_view w.
Proof.
  unfold class_ns_set. destruct (get_class w k) as [c|] eqn:E; [|reflexivity].
  unfold inv_view, set_class; cbn. apply map_set_nth_same. intros y Hy. unfold get_class in E. rewrite E in Hy.
  injection Hy as <-. reflexivity.
Qed.

Lemma inv_view_class_ns_set_if w k name ch m : inv_view (class_ns_set_if w k name ch m) = inv_view w.
Proof. unfold class_ns_set_if. destruct (ch || in_own_ns w k name); [apply inv_view_class_ns_set|reflexivity]. Qed.

Lemma inv_view_decorate_with_invariants w f b : inv_view (fst (decorate_with_invariants w f b)) = inv_view w.
Proof.
  unfold decorate_with_invariants. destruct (already_inv_wrapped w _ f); [reflexivity|].
  unfold wrap. destruct (get_func w f); reflexivity.
Qed.

Lemma inv_view_decorate_inv_opt w o : inv_view (fst (decorate_inv_opt w o)) = inv_view w.
Proof.
  unfold decorate_inv_opt. destruct o as [x|]; [|reflexivity].
  pose proof (inv_view_decorate_with_invariants w x false) as H.
  destruct (decorate_with_invariants w x false). exact H.
Qed.

Lemma inv_view_wrap_member w k name : inv_view (wrap_member w k name) = inv_view w.
Proof.
  unfold wrap_member.
  destruct (str_in name _); [reflexivity|].
  destruct (negb (String.eqb name "__setattr__") && negb (negb (is_nil (class_invs w k LCall)))); [reflexivity|].
  destruct (String.eqb name "__setattr__" && negb (negb (is_nil (class_invs w k LSet)))); [reflexivity|].
  destruct (is_private name); [reflexivity|].
  destruct (class_getattr w k name) as [[kd f|g s d|n]|]; try reflexivity.
  - destruct kd; try reflexivity.
    pose proof (inv_view_decorate_with_invariants w f false) as H.
    destruct (decorate_with_invariants w f false) as [w1 f']. rewrite inv_view_class_ns_set_if. exact H.
  - pose proof (inv_view_decorate_inv_opt w g) as H1. destruct (decorate_inv_opt w g) as [w1 g'].
    pose proof (inv_view_decorate_inv_opt w1 s) as H2. destruct (decorate_inv_opt w1 s) as [w2 s'].
    pose proof (inv_view_decorate_inv_opt w2 d) as H3. destruct (decorate_inv_opt w2 d) as [w3 d'].
    rewrite inv_view_class_ns_set_if. cbn in *. congruence.
  - unfold slot_function. 
    match goal with |- context [add_func w ?fo] => destruct (add_func w fo) as [wa f] eqn:E end.
    assert (Ha : inv_view wa = inv_view w) by (unfold add_func in E; injection E as <- _; reflexivity).
    pose proof (inv_view_decorate_with_invariants wa f false) as H.
    destruct (decorate_with_invariants wa f false) as [w1 f']. rewrite inv_view_class_ns_set. cbn in H. congruence.
Qed.

Lemma inv_view_wrap_constructor w k : inv_view (wrap_constructor w k) = inv_view w.
Proof.
  unfold wrap_constructor.
  destruct (class_getattr w k "__init__") as [[kd f|g s d|n]|]; try reflexivity.
  - destruct kd; try reflexivity.
    pose proof (inv_view_decorate_with_invariants w f true) as H.
    destruct (decorate_with_invariants w f true) as [w1 f']. rewrite inv_view_class_ns_set_if. exact H.
  - destruct (has_own_new w k).
    + destruct (class_getattr w k "__new__") as [[kd f|g s d|n']|]; try reflexivity.
      destruct (already_inv_wrapped w _ f); [reflexivity|].
      unfold wrap. destruct (get_func w f); [|reflexivity]. unfold add_func. rewrite inv_view_class_ns_set. reflexivity.
    + unfold slot_function.
      match goal with |- context [add_func w ?fo] => destruct (add_func w fo) as [wa f] eqn:E end.
      assert (Ha : inv_view wa = inv_view w) by (unfold add_func in E; injection E as <- _; reflexivity).
      pose proof (inv_view_decorate_with_invariants wa f true) as H.
      destruct (decorate_with_invariants wa f true) as [w1 f']. rewrite inv_view_class_ns_set. cbn in H. congruence.
Qed.

Lemma inv_view_add_invariant_checks w k : inv_view (add_invariant_checks w k) = inv_view w.
Proof.
  unfold add_invariant_checks. rewrite <- (inv_view_wrap_constructor w k).
  generalize (dir_names (wrap_constructor w k) k). generalize (wrap_constructor w k).
  intros w1 names. revert w1. induction names as [|n r IH]; intro w1; cbn; [reflexivity|].
  rewrite IH. apply inv_view_wrap_member.
Qed.

(** the invariant lists a class decorator appends to were created by this class statement *)
Definition InvFresh (w0 w : world) (k : nat) : Prop :=
  forall which r, class_inv w k which = Some r -> List.length (w_heap w0) <= r.

Definition HeadsOwnMro (w : world) (k : nat) : Prop :=
  exists c rest, get_class w k = Some c /\ co_mro c = k :: rest.

Lemma InvFresh_view w0 w w' k : inv_view w = inv_view w' -> InvFresh w0 w k -> InvFresh w0 w' k.
Proof. intros H Hf which r Hr. apply (Hf which r). rewrite (class_inv_view w w' k which H). exact Hr. Qed.

Lemma HeadsOwnMro_view w w' k : inv_view w = inv_view w' -> HeadsOwnMro w k -> HeadsOwnMro w' k.
Proof.
  intros H (c & rest & Hc & Hm). unfold HeadsOwnMro, get_class in *.
  assert (E : option_map (fun c => (co_mro c, co_inv c, co_inv_call c, co_inv_set c)) (nth_error (w_classes w) k)
            = option_map (fun c => (co_mro c, co_inv c, co_inv_call c, co_inv_set c)) (nth_error (w_classes w') k)).
  { rewrite <- !nth_error_map. unfold inv_view in H. rewrite H. reflexivity. }
  rewrite Hc in E. destruct (nth_error (w_classes w') k) as [c'|]; cbn in E; [|discriminate].
  injection E as E1 _ _ _. exists c', rest. split; [reflexivity|congruence].
Qed.

Lemma inv_view_alloc w c : inv_view (fst (alloc w c)) = inv_view w. Proof. reflexivity. Qed.
Lemma inv_view_heap_append w r x : inv_view (heap_append w r x) = inv_view w. Proof. reflexivity. Qed.

Lemma get_class_set_class_same w k c : k < List.length (w_classes w) -> get_class (set_class w k c) k = Some c.
Proof.
  intro H. unfold get_class, set_class; cbn. revert k H. induction (w_classes w) as [|x l IH]; intros [|k] H; cbn in *; try lia; auto.
  apply IH. lia.
Qed.

Lemma class_inv_own w k c rest which r :
  get_class w k = Some c -> co_mro c = k :: rest -> own_inv c which = Some r -> class_inv w k which = Some r.
Proof. intros Hc Hm Ho. unfold class_inv, mro_of. rewrite Hc, Hm. cbn. rewrite Hc, Ho. reflexivity. Qed.

Lemma apply_invariant_frame w0 w k d :
  KeepsC w0 w -> List.length (w_classes w0) <= k -> InvFresh w0 w k -> HeadsOwnMro w k ->
  KeepsC w0 (apply_invariant w k d) /\ InvFresh w0 (apply_invariant w k d) k /\ HeadsOwnMro (apply_invariant w k d) k.
Proof.
  intros Hk Hn Hf Hm. unfold apply_invariant. destruct (negb (id_enabled d)); [auto|].
  (* the lists: the class's own ones (created by this statement) or three new ones *)
  set (w1 := match class_inv w k LInv with
             | Some _ => w
             | None => let '(wa, r1) := alloc w [] in let '(wb, r2) := alloc wa [] in let '(wc, r3) := alloc wb [] in
                       class_set_invs wc k (Some r1) (Some r2) (Some r3)
             end).
  assert (H1 : KeepsC w0 w1 /\ InvFresh w0 w1 k /\ HeadsOwnMro w1 k).
  { unfold w1. destruct (class_inv w k LInv) as [r|] eqn:E; [auto|].
    destruct Hm as (c & rest & Hc & Hmro).
    destruct (alloc w []) as [wa r1] eqn:A1. destruct (alloc wa []) as [wb r2] eqn:A2. destruct (alloc wb []) as [wc r3] eqn:A3.
    assert (Ka : KeepsC w0 wa) by (replace wa with (fst (alloc w [])) by (rewrite A1; reflexivity); apply KeepsC_alloc; exact Hk).
    assert (Kb : KeepsC w0 wb) by (replace wb with (fst (alloc wa [])) by (rewrite A2; reflexivity); apply KeepsC_alloc; exact Ka).
    assert (Kc : KeepsC w0 wc) by (replace wc with (fst (alloc wb [])) by (rewrite A3; reflexivity); apply KeepsC_alloc; exact Kb).
    assert (R1 : List.length (w_heap w0) <= r1).
    { unfold alloc in A1. injection A1 as _ <-. destruct Hk as (_ & _ & _ & _ & _ & F & _). exact F. }
    assert (R2 : List.length (w_heap w0) <= r2).
    { unfold alloc in A2. injection A2 as _ <-. destruct Ka as (_ & _ & _ & _ & _ & F & _). exact F. }
    assert (R3 : List.length (w_heap w0) <= r3).
    { unfold alloc in A3. injection A3 as _ <-. destruct Kb as (_ & _ & _ & _ & _ & F & _). exact F. }
    assert (Cc : w_classes wc = w_classes w).
    { unfold alloc in A1, A2, A3. injection A1 as <- _. injection A2 as <- _. injection A3 as <- _. reflexivity. }
    assert (Gc0 : get_class wc k = Some c) by (unfold get_class in *; rewrite Cc; exact Hc).
    unfold class_set_invs. rewrite Gc0.
    set (c' := {| co_name := co_name c; co_bases := co_bases c; co_mro := co_mro c; co_meta := co_meta c; co_ns := co_ns c;
                  co_inv := Some r1; co_inv_call := Some r2; co_inv_set := Some r3; co_last_check_on := co_last_check_on c |}).
    assert (Lk : k < List.length (w_classes wc)) by (apply nth_error_Some; unfold get_class in Gc0; congruence).
    assert (Gc : get_class (set_class wc k c') k = Some c') by (apply get_class_set_class_same; exact Lk).
    split; [apply KeepsC_set_class; assumption|]. split.
    - intros which r Hr.
      assert (Ho : exists r', own_inv c' which = Some r' /\ List.length (w_heap w0) <= r').
      { destruct which; cbn; eexists; split; try reflexivity; assumption. }
      destruct Ho as (r' & Eo & Hr').
      rewrite (class_inv_own (set_class wc k c') k c' rest which r' Gc Hmro Eo) in Hr. injection Hr as <-. exact Hr'.
    - exists c', rest. split; [exact Gc|exact Hmro]. }
  destruct H1 as (K1 & F1 & M1). fold w1.
  destruct (class_inv w1 k LInv) as [r1|] eqn:E1; [|auto].
  destruct (class_inv w1 k LCall) as [r2|] eqn:E2; [|auto].
  destruct (class_inv w1 k LSet) as [r3|] eqn:E3; [|auto].
  pose proof (F1 LInv r1 E1) as Fr1. pose proof (F1 LCall r2 E2) as Fr2. pose proof (F1 LSet r3 E3) as Fr3.
  set (w2 := heap_append w1 r1 (IContract (id_contract d))).
  set (w3 := if on_call (id_check_on d) then heap_append w2 r2 (IContract (id_contract d)) else w2).
  set (w4 := if on_setattr (id_check_on d) then heap_append w3 r3 (IContract (id_contract d)) else w3).
  assert (K2 : KeepsC w0 w2) by (apply KeepsC_heap_append; assumption).
  assert (K3 : KeepsC w0 w3) by (unfold w3; destruct (on_call _); [apply KeepsC_heap_append; assumption|exact K2]).
  assert (K4 : KeepsC w0 w4) by (unfold w4; destruct (on_setattr _); [apply KeepsC_heap_append; assumption|exact K3]).
  assert (V4 : inv_view w1 = inv_view w4).
  { unfold w4, w3, w2. destruct (on_setattr _), (on_call _); reflexivity. }
  assert (V5 : inv_view w1 = inv_view (add_invariant_checks w4 k)) by (rewrite inv_view_add_invariant_checks; exact V4).
  split; [apply KeepsC_add_invariant_checks; assumption|]. split.
  - eapply InvFresh_view; [exact V5|exact F1].
  - eapply HeadsOwnMro_view; [exact V5|exact M1].
Qed.

Lemma apply_invariants_frame w0 k : forall ds w,
  KeepsC w0 w -> List.length (w_classes w0) <= k -> InvFresh w0 w k -> HeadsOwnMro w k ->
  KeepsC w0 (fold_left (fun acc i => apply_invariant acc k i) ds w).
Proof.
  induction ds as [|d r IH]; intros w Hk Hn Hf Hm; cbn; [exact Hk|].
  destruct (apply_invariant_frame w0 w k d Hk Hn Hf Hm) as (A & B & C). apply IH; assumption.
Qed.

(** ** the class statement *)
(** everything up to (not including) the class decorators: the class object [k] in the world *)
Definition define_class_pre (w : world) (d : cdecl) : res (world * nat) :=
  match inv_construction_error (rev (cd_invs d)) with Some e => Err e | None =>
  if negb (forallb (is_live w) (cd_bases d)) then Err "NameError" else
  r <- define_members w (cd_bases d) (cd_members d) [] ;;
  let '(w1, ns) := r in
  let meta := cd_dbc d || existsb (fun b => match get_class w1 b with Some c => co_meta c | None => false end) (cd_bases d) in
  let k := List.length (w_classes w1) in
  match compute_mro w1 k (cd_bases d) with
  | None =>
      match (if meta then dbc_decorate_members w1 (cd_bases d) (cd_dbc d) ns ns else Ok (w1, ns)) with
      | Err e => Err e
      | Ok _ => Err "TypeError"
      end
  | Some mro =>
      r2 <- (if meta
             then
               let '(wa, i1) := collapse_invariants w1 (cd_bases d) LInv in
               let '(wb, i2) := collapse_invariants wa (cd_bases d) LCall in
               let '(wc, i3) := collapse_invariants wb (cd_bases d) LSet in
               x <- dbc_decorate_members wc (cd_bases d) (cd_dbc d) ns ns ;;
               Ok (fst x, snd x, i1, i2, i3)
             else Ok (w1, ns, None, None, None)) ;;
      let '(w2, ns2, i1, i2, i3) := r2 in
      let w3 := {| w_heap := w_heap w2; w_funcs := w_funcs w2;
                   w_classes := w_classes w2 ++ [{| co_name := k; co_bases := cd_bases d; co_mro := mro;
                                                    co_meta := meta; co_ns := ns2; co_inv := i1; co_inv_call := i2;
                                                    co_inv_set := i3; co_last_check_on := None |}];
                   w_registered := w_registered w2; w_module := w_module w2 |} in
      let w4 := if meta
                then (match class_inv w3 k LInv with Some _ => add_invariant_checks w3 k | None => w3 end)
                else w3 in
      let w5 := if meta
                then {| w_heap := w_heap w4; w_funcs := w_funcs w4; w_classes := w_classes w4;
                        w_registered := w_registered w4 ++ [k]; w_module := w_module w4 |}
                else w4 in
      Ok (w5, k)
  end
  end.

Lemma define_class_split w d :
  define_class w d = match define_class_pre w d with
                     | Ok (w5, k) => Ok (fold_left (fun acc i => apply_invariant acc k i) (cd_invs d) w5)
                     | Err e => Err e
                     end.
Proof.
  unfold define_class, define_class_pre.
  destruct (inv_construction_error (rev (cd_invs d))); [reflexivity|].
  destruct (negb (forallb (is_live w) (cd_bases d))); [reflexivity|].
  destruct (define_members w (cd_bases d) (cd_members d) []) as [[w1 ns]|e]; cbn [bind]; [|reflexivity].
  destruct (compute_mro w1 (List.length (w_classes w1)) (cd_bases d)) as [mro|];
    [|destruct (if cd_dbc d || existsb _ (cd_bases d) then _ else _); reflexivity].
  destruct (cd_dbc d || existsb _ (cd_bases d)).
  - destruct (collapse_invariants w1 (cd_bases d) LInv) as [wa i1].
    destruct (collapse_invariants wa (cd_bases d) LCall) as [wb i2].
    destruct (collapse_invariants wb (cd_bases d) LSet) as [wc i3].
    destruct (dbc_decorate_members wc (cd_bases d) (cd_dbc d) ns ns) as [[w2 ns2]|e]; cbn [bind fst snd]; reflexivity.
  - cbn [bind]. reflexivity.
Qed.

Lemma Keeps_collapse_invariants w0 w bases which : Keeps w0 w -> Keeps w0 (fst (collapse_invariants w bases which)).
Proof.
  intro H. unfold collapse_invariants. destruct (negb _ || _); [|exact H].
  destruct (alloc w _) as [w1 r] eqn:E. cbn. replace w1 with (fst (alloc w (map IContract (flat_map (fun b => class_invs w b which) bases)))) by (rewrite E; reflexivity).
  apply Keeps_alloc'. exact H.
Qed.

Lemma FC_collapse_invariants w0 w bases which : FC w0 w -> FC w0 (fst (collapse_invariants w bases which)).
Proof.
  intro H. unfold collapse_invariants. destruct (negb _ || _); [|exact H].
  destruct (alloc w _) as [w1 r] eqn:E. cbn. replace w1 with (fst (alloc w (map IContract (flat_map (fun b => class_invs w b which) bases)))) by (rewrite E; reflexivity).
  apply FC_alloc. exact H.
Qed.

Lemma collapse_invariants_fresh w0 w bases which r :
  Keeps w0 w -> snd (collapse_invariants w bases which) = Some r -> List.length (w_heap w0) <= r.
Proof.
  intros Hk. unfold collapse_invariants. destruct (negb _ || _); [|discriminate].
  unfold alloc; cbn. intro H. injection H as <-. destruct Hk as (_ & _ & _ & _ & _ & F & _). exact F.
Qed.

(** up to the class decorators *)
Lemma class_appended w w2 k0 c :
  Keeps w w2 -> k0 = List.length (w_classes w) ->
  let w3 := {| w_heap := w_heap w2; w_funcs := w_funcs w2; w_classes := w_classes w2 ++ [c];
               w_registered := w_registered w2; w_module := w_module w2 |} in
  KeepsC w w3 /\ get_class w3 k0 = Some c.
Proof.
  intros K2 Hk0 w3. assert (E2 : w_classes w2 = w_classes w) by (apply Keeps_classes; exact K2). split.
  - destruct K2 as (A & B & C & D & E & F & G). unfold KeepsC, w3; cbn. repeat split; auto.
    + intros j Hj. rewrite nth_error_app1 by (rewrite C; exact Hj). rewrite C. reflexivity.
    + exists []. rewrite app_nil_r. exact E.
    + rewrite app_length, C. cbn. lia.
  - unfold get_class, w3; cbn. rewrite E2, Hk0. rewrite nth_error_app2 by lia. rewrite Nat.sub_diag. reflexivity.
Qed.

Theorem define_class_pre_frame w d w5 k :
  define_class_pre w d = Ok (w5, k) ->
  KeepsC w w5 /\ List.length (w_classes w) <= k /\ HeadsOwnMro w5 k /\
  (forall which r, (exists c, get_class w5 k = Some c /\ own_inv c which = Some r) -> List.length (w_heap w) <= r) /\
  (cd_bases d = [] -> exists c, get_class w5 k = Some c /\ co_mro c = [k]).
Proof.
  unfold define_class_pre. intro H.
  destruct (inv_construction_error (rev (cd_invs d))); [discriminate|].
  destruct (negb (forallb (is_live w) (cd_bases d))); [discriminate|].
  destruct (define_members w (cd_bases d) (cd_members d) []) as [[w1 ns]|e] eqn:Dm; cbn [bind] in H; [|discriminate].
  assert (Fc0 : FreshClosed w w).
  { intros f fo Hf Hg. apply get_func_bound in Hg. lia. }
  assert (N0 : NsOk w w (cd_bases d) []) by (intros key m []).
  destruct (define_members_good w (cd_bases d) (cd_members d) w [] w1 ns (Keeps_refl w) Fc0 N0 Dm) as (K1 & C1 & N1).
  remember (List.length (w_classes w1)) as k0 eqn:Hk0.
  assert (Ek : k0 = List.length (w_classes w)) by (rewrite Hk0, (Keeps_classes w w1 K1); reflexivity).
  destruct (compute_mro w1 k0 (cd_bases d)) as [mro|] eqn:Em; [|match type of H with context [if ?b then ?x else ?y] => destruct (if b then x else y) end; discriminate].
  assert (Hmro : exists rest, mro = k0 :: rest).
  { unfold compute_mro in Em. destruct (c3_merge _ _) as [l|]; [|discriminate]. injection Em as <-. eexists. reflexivity. }
  destruct Hmro as (rest & ->).
  assert (Hnb : cd_bases d = [] -> rest = []).
  { intro Hb. rewrite Hb in Em. cbn in Em. injection Em as <-. reflexivity. }
  destruct (cd_dbc d || existsb _ (cd_bases d)) eqn:Meta.
  - destruct (collapse_invariants w1 (cd_bases d) LInv) as [wa i1] eqn:Ca.
    destruct (collapse_invariants wa (cd_bases d) LCall) as [wb i2] eqn:Cb.
    destruct (collapse_invariants wb (cd_bases d) LSet) as [wc i3] eqn:Cc.
    assert (Ka : Keeps w wa) by (replace wa with (fst (collapse_invariants w1 (cd_bases d) LInv)) by (rewrite Ca; reflexivity); apply Keeps_collapse_invariants; exact K1).
    assert (Kb : Keeps w wb) by (replace wb with (fst (collapse_invariants wa (cd_bases d) LCall)) by (rewrite Cb; reflexivity); apply Keeps_collapse_invariants; exact Ka).
    assert (Kc : Keeps w wc) by (replace wc with (fst (collapse_invariants wb (cd_bases d) LSet)) by (rewrite Cc; reflexivity); apply Keeps_collapse_invariants; exact Kb).
    assert (Fc : FC w wc).
    { replace wc with (fst (collapse_invariants wb (cd_bases d) LSet)) by (rewrite Cc; reflexivity). apply FC_collapse_invariants.
      replace wb with (fst (collapse_invariants wa (cd_bases d) LCall)) by (rewrite Cb; reflexivity). apply FC_collapse_invariants.
      replace wa with (fst (collapse_invariants w1 (cd_bases d) LInv)) by (rewrite Ca; reflexivity). apply FC_collapse_invariants.
      apply FreshClosed_FC. exact C1. }
    assert (H1 : forall r, i1 = Some r -> List.length (w_heap w) <= r).
    { intros r Hr. apply (collapse_invariants_fresh w w1 (cd_bases d) LInv r K1). rewrite Ca. exact Hr. }
    assert (H2 : forall r, i2 = Some r -> List.length (w_heap w) <= r).
    { intros r Hr. apply (collapse_invariants_fresh w wa (cd_bases d) LCall r Ka). rewrite Cb. exact Hr. }
    assert (H3 : forall r, i3 = Some r -> List.length (w_heap w) <= r).
    { intros r Hr. apply (collapse_invariants_fresh w wb (cd_bases d) LSet r Kb). rewrite Cc. exact Hr. }
    destruct (dbc_decorate_members wc (cd_bases d) (cd_dbc d) ns ns) as [[w2 ns2]|e] eqn:Dd; cbn [bind fst snd] in H; [|discriminate].
    assert (Nc : forall key m, In (key, m) ns -> member_ok w wc (cd_bases d) key m).
    { intros key m Hin. apply member_ok_same_classes with (w := w1).
      - rewrite (Keeps_classes w w1 K1), (Keeps_classes w wc Kc). reflexivity.
      - apply N1. exact Hin. }
    destruct (dbc_decorate_members_good w (cd_bases d) (cd_dbc d) ns wc ns w2 ns2 Kc Fc Nc Dd) as (K2 & _).
    set (cls := {| co_name := k0; co_bases := cd_bases d; co_mro := k0 :: rest; co_meta := true; co_ns := ns2;
                   co_inv := i1; co_inv_call := i2; co_inv_set := i3; co_last_check_on := None |}) in *.
    destruct (class_appended w w2 k0 cls K2 Ek) as (K3 & G3).
    set (w3 := {| w_heap := w_heap w2; w_funcs := w_funcs w2; w_classes := w_classes w2 ++ [cls];
                  w_registered := w_registered w2; w_module := w_module w2 |}) in *.
    assert (Hk : List.length (w_classes w) <= k0) by lia.
    set (w4 := match class_inv w3 k0 LInv with Some _ => add_invariant_checks w3 k0 | None => w3 end) in *.
    assert (K4 : KeepsC w w4 /\ inv_view w4 = inv_view w3).
    { unfold w4. destruct (class_inv w3 k0 LInv); [|auto].
      split; [apply KeepsC_add_invariant_checks; assumption|apply inv_view_add_invariant_checks]. }
    destruct K4 as (K4 & V4). injection H as <- <-.
    assert (M3 : HeadsOwnMro w3 k0) by (exists cls, rest; split; [exact G3|reflexivity]).
    assert (Ov : option_map (fun c => (co_mro c, co_inv c, co_inv_call c, co_inv_set c)) (get_class w4 k0)
               = option_map (fun c => (co_mro c, co_inv c, co_inv_call c, co_inv_set c)) (get_class w3 k0)).
    { unfold get_class. rewrite <- !nth_error_map. change (map _ (w_classes w4)) with (inv_view w4). rewrite V4. reflexivity. }
    split; [|split; [exact Hk|split; [|split]]].
    + destruct K4 as (A & B & C & D & (l & E) & F & G & Hc). unfold KeepsC; cbn. repeat split; auto.
      exists (l ++ [k0]). rewrite E, app_assoc. reflexivity.
    + apply HeadsOwnMro_view with (w := w3); [|exact M3]. rewrite <- V4. reflexivity.
    + intros which r (c & Hc & Ho).
      change (get_class {| w_heap := w_heap w4; w_funcs := w_funcs w4; w_classes := w_classes w4;
                           w_registered := w_registered w4 ++ [k0]; w_module := w_module w4 |} k0) with (get_class w4 k0) in Hc.
      rewrite Hc, G3 in Ov. cbn in Ov. injection Ov as _ O1 O2 O3.
      destruct which; cbn in Ho; [apply H1|apply H2|apply H3]; congruence.
    + intro Hb.
      change (get_class {| w_heap := w_heap w4; w_funcs := w_funcs w4; w_classes := w_classes w4;
                           w_registered := w_registered w4 ++ [k0]; w_module := w_module w4 |} k0) with (get_class w4 k0).
      rewrite G3 in Ov. destruct (get_class w4 k0) as [c4|]; cbn in Ov; [|discriminate].
      injection Ov as Om _ _ _. exists c4. split; [reflexivity|]. rewrite Om, (Hnb Hb). reflexivity.
  - cbn [bind] in H.
    set (cls := {| co_name := k0; co_bases := cd_bases d; co_mro := k0 :: rest; co_meta := false; co_ns := ns;
                   co_inv := None; co_inv_call := None; co_inv_set := None; co_last_check_on := None |}) in *.
    destruct (class_appended w w1 k0 cls K1 Ek) as (K3 & G3).
    injection H as <- <-. split; [exact K3|]. split; [lia|]. split; [|split].
    + exists cls, rest. split; [exact G3|reflexivity].
    + intros which r (c & Hc & Ho). rewrite G3 in Hc. injection Hc as <-. destruct which; discriminate.
    + intro Hb. exists cls. split; [exact G3|]. cbn. rewrite (Hnb Hb). reflexivity.
Qed.

(** ** the frame theorem for class statements *)
(** [OwnLists]: a list the new class shows through attribute lookup is its own object (it inherits
    no list object from a base).  The meta-class establishes this by giving every class lists of its
    own as soon as a base has any (repair of D15); it holds trivially for a class without bases. *)
Definition OwnLists (w5 : world) (k : nat) : Prop :=
  forall which r, class_inv w5 k which = Some r -> exists c, get_class w5 k = Some c /\ own_inv c which = Some r.

Theorem define_class_frame w d w' :
  define_class w d = Ok w' ->
  (forall w5 k, define_class_pre w d = Ok (w5, k) -> OwnLists w5 k) ->
  KeepsC w w'.
Proof.
  intros H Hown. rewrite define_class_split in H.
  destruct (define_class_pre w d) as [[w5 k]|e] eqn:P; [|discriminate]. injection H as <-.
  destruct (define_class_pre_frame w d w5 k P) as (K5 & Hk & M5 & O5 & _).
  apply apply_invariants_frame; [exact K5|exact Hk| |exact M5].
  intros which r Hr. apply (O5 which r). apply (Hown w5 k eq_refl which r Hr).
Qed.

(** a class without bases: its lookups end at itself *)
Corollary define_class_frame_no_bases w d w' :
  define_class w d = Ok w' -> cd_bases d = [] -> KeepsC w w'.
Proof.
  intros H Hb. apply (define_class_frame w d w' H). intros w5 k P which r Hr.
  destruct (define_class_pre_frame w d w5 k P) as (_ & _ & _ & _ & Hm). destruct (Hm Hb) as (c & Hc & Hmro).
  exists c. split; [exact Hc|]. unfold class_inv, mro_of in Hr. rewrite Hc, Hmro in Hr. cbn in Hr. rewrite Hc in Hr.
  destruct (own_inv c which); [exact Hr|discriminate].
Qed.

(** a class statement without enabled class decorators *)
Lemma apply_invariant_disabled w k d : id_enabled d = false -> apply_invariant w k d = w.
Proof. intro H. unfold apply_invariant. rewrite H. reflexivity. Qed.

Corollary define_class_frame_no_decorators w d w' :
  define_class w d = Ok w' -> forallb (fun i => negb (id_enabled i)) (cd_invs d) = true -> KeepsC w w'.
Proof.
  intros H Hd. rewrite define_class_split in H.
  destruct (define_class_pre w d) as [[w5 k]|e] eqn:P; [|discriminate]. injection H as <-.
  destruct (define_class_pre_frame w d w5 k P) as (K5 & _).
  assert (E : fold_left (fun acc i => apply_invariant acc k i) (cd_invs d) w5 = w5).
  { clear P K5. revert w5. induction (cd_invs d) as [|i r IH]; intro w5; cbn; [reflexivity|].
    cbn in Hd. apply andb_prop in Hd as [Hi Hr]. rewrite apply_invariant_disabled by (destruct (id_enabled i); [discriminate|reflexivity]).
    apply IH. exact Hr. }
  rewrite E. exact K5.
Qed.
