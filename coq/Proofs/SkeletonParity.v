(** The statement skeletons of the run-time wrappers against which the hand-written model
    (Model/Checker.v, Model/Run.v) was written, and the obligations that tie them to the skeletons
    regenerated from /repo on this run (Gen/Generated.v):
      - parity: each async wrapper/helper, with await erased, equals its sync twin (C13);
      - pin: the sync skeletons are the ones the model mirrors (phase order, try/finally extent,
        position of the re-entrancy shortcut: C01, C02, C08, C10, C11, C16, C03).
    A change of the wrappers breaks a lemma here; that is not by itself a violation - it makes the
    checks search for a failing input. *)
From ICV Require Import Base Generated.
Open Scope string_scope.
Open Scope list_scope.

Lemma parity_checker : skel_checker_async = skel_checker_sync.
Proof. vm_compute. reflexivity. Qed.

Lemma parity_assert_preconditions : skel_assert_preconditions_async = skel_assert_preconditions_sync.
Proof. vm_compute. reflexivity. Qed.

Lemma parity_capture_old : skel_capture_old_async = skel_capture_old_sync.
Proof. vm_compute. reflexivity. Qed.

Lemma parity_assert_postconditions : skel_assert_postconditions_async = skel_assert_postconditions_sync.
Proof. vm_compute. reflexivity. Qed.

Lemma parity_invariant : skel_invariant_async = skel_invariant_sync.
Proof. vm_compute. reflexivity. Qed.
