(** The source text against which the hand-written models were written, pinned (SkelPin*: the
    statement skeletons of the run-time wrappers; SrcPin*: every statement of the package, normalised by
    unparsing): a change in /repo breaks a lemma here; that is not by itself a violation - it makes the
    checks search for a failing input.
    (regenerate with harness/repin.py after reviewing the model against the new code) *)
From ICV Require Import Base Generated.
Open Scope string_scope.
Open Scope list_scope.


Definition pinned_init_wrapper : list string := [
  "try:";
  "    instance = _find_self(args=args, kwargs=kwargs, param_names=param_names)";
  "except KeyError as err:";
  "    raise KeyError('...'.format(func, param_names, args, kwargs)) from err";
  "in_progress = _IN_PROGRESS.get()";
  "id_instance = id(instance)";
  "if id_instance in in_progress:";
  "    return func(*args, **kwargs)";
  "_IN_PROGRESS.set(in_progress | {id_instance})";
  "try:";
  "    result = func(*args, **kwargs)";
  "    for invariant in instance.__class__.__invariants__:";
  "        _assert_invariant(contract=invariant, instance=instance)";
  "    return result";
  "finally:";
  "    _IN_PROGRESS.set(in_progress)"
].

Definition pinned_invariant : list string := [
  "try:";
  "    instance = _find_self(args=args, kwargs=kwargs, param_names=param_names)";
  "except KeyError as err:";
  "    raise KeyError('...'.format(func, param_names, args, kwargs)) from err";
  "invariants = instance.__class__.__invariants_on_setattr__ if func.__name__ == '__setattr__' else instance.__class__.__invariants_on_call__";
  "in_progress = _IN_PROGRESS.get()";
  "id_instance = id(instance)";
  "if id_instance not in in_progress:";
  "    _IN_PROGRESS.set(in_progress | {id_instance})";
  "else:";
  "    return func(*args, **kwargs)";
  "try:";
  "    for invariant in invariants:";
  "        _assert_invariant(contract=invariant, instance=instance)";
  "    result = func(*args, **kwargs)";
  "    for invariant in invariants:";
  "        _assert_invariant(contract=invariant, instance=instance)";
  "    return result";
  "finally:";
  "    _IN_PROGRESS.set(in_progress)"
].

Definition pinned_new_wrapper : list string := [
  "instance = new_func(*args, **kwargs)";
  "for invariant in instance.__class__.__invariants__:";
  "    _assert_invariant(contract=invariant, instance=instance)";
  "return instance"
].

Lemma pinned_init_wrapper_ok : skel_init_wrapper = pinned_init_wrapper.
Proof. vm_compute. reflexivity. Qed.

Lemma pinned_invariant_ok : skel_invariant_sync = pinned_invariant.
Proof. vm_compute. reflexivity. Qed.

Lemma pinned_new_wrapper_ok : skel_new_wrapper = pinned_new_wrapper.
Proof. vm_compute. reflexivity. Qed.
