(** C11: the in-progress variable is restored after every outcome (any exception at any site, any
    cancellation plan).  C10: the marker-based shortcut coincides with the declarative rule on the
    stack of open frames; evaluation terminates whenever the uncontracted program does. *)
From Coq Require Import List ZArith Bool Arith Lia.
From ICV Require Import Run.
Import ListNotations.

Section Seq.
  Variable plan : nat -> option Z.

  Lemma run_seq_pbind {A B} (m : prog A) (f : A -> prog B) : forall s,
    run_seq plan (pbind m f) s
    = match run_seq plan m s with
      | (t, ORet a, s') => match run_seq plan (f a) s' with (t', r, s'') => (t ++ t', r, s'') end
      | (t, OExn x, s') => (t, OExn x, s')
      end.
  Proof.
    induction m as [a | x | k IH | s0 k IH | ev k IH | pt r IHr c IHc]; intros s; cbn.
    - destruct (run_seq plan (f a) s) as [[t' r] s'']. reflexivity.
    - reflexivity.
    - apply IH.
    - apply IH.
    - rewrite IH. destruct (run_seq plan k s) as [[t [a|x]] s'].
      + destruct (run_seq plan (f a) s') as [[t' r] s'']. reflexivity.
      + reflexivity.
    - destruct (plan pt); [apply IHc | apply IHr].
  Qed.

  (** whatever happens inside, [try: m finally: set(saved)] ends with the saved value published *)
  Lemma run_seq_finally_set {A} (m : prog A) (saved : kset) : forall s t r s',
    run_seq plan (finally_ m (SetP saved (Ret tt))) s = (t, r, s') -> s' = saved.
  Proof.
    induction m as [a | x | k IH | s0 k IH | ev k IH | pt rs IHr c IHc]; intros s t r s' H; cbn in H.
    - injection H as <- <- <-. reflexivity.
    - injection H as <- <- <-. reflexivity.
    - eapply IH; eauto.
    - eapply IH; eauto.
    - destruct (run_seq plan (finally_ k (SetP saved (Ret tt))) s) as [[t0 r0] s0] eqn:E.
      injection H as <- <- <-. eapply IH; eauto.
    - destruct (plan pt); [eapply IHc | eapply IHr]; eauto.
  Qed.

  Definition preserves {A} (m : prog A) : Prop :=
    forall s t r s', run_seq plan m s = (t, r, s') -> s' = s.

  Lemma preserves_pbind {A B} (m : prog A) (f : A -> prog B) :
    preserves m -> (forall a, preserves (f a)) -> preserves (pbind m f).
  Proof.
    intros Hm Hf s t r s' H. rewrite run_seq_pbind in H.
    destruct (run_seq plan m s) as [[t0 [a|x]] s0] eqn:E.
    - destruct (run_seq plan (f a) s0) as [[t1 r1] s1] eqn:E1. injection H as <- <- <-.
      apply Hm in E. subst s0. eapply Hf; eauto.
    - injection H as <- <- <-. eapply Hm; eauto.
  Qed.

  Lemma preserves_emit {A} ev (k : prog A) : preserves k -> preserves (Emit ev k).
  Proof.
    intros Hk s t r s' H. cbn in H. destruct (run_seq plan k s) as [[t0 r0] s0] eqn:E.
    injection H as <- <- <-. eapply Hk; eauto.
  Qed.

  Lemma preserves_ret {A} (a : A) : preserves (Ret a).
  Proof. intros s t r s' H. cbn in H. injection H as <- <- <-. reflexivity. Qed.
  Lemma preserves_raise {A} x : preserves (@raise_ A x).
  Proof. intros s t r s' H. cbn in H. injection H as <- <- <-. reflexivity. Qed.

  Section Scripts.
    Variable call : target -> prog bool.
    Hypothesis Hcall : forall t, preserves (call t).

    Lemma preserves_actions acts v : preserves (run_actions call acts v).
    Proof.
      induction acts as [|a rest IH]; cbn.
      - destruct v; [apply preserves_ret | apply preserves_raise].
      - destruct a as [t|pt].
        + apply preserves_pbind; [apply Hcall | intros _; exact IH].
        + intros s t r s' H. cbn in H. destruct (plan pt).
          * cbn in H. injection H as <- <- <-. reflexivity.
          * eapply IH; eauto.
    Qed.

    Lemma preserves_script sc : preserves (run_script call sc).
    Proof. apply preserves_actions. Qed.
  End Scripts.

  (** the three wrappers restore the variable for every behaviour of the user code they run *)
  Lemma preserves_call_fn run f fd : (forall sc, preserves (run sc)) -> preserves (call_fn run f fd).
  Proof.
    intros Hrun s t r s' H. unfold call_fn in H. cbn [run_seq] in H.
    destruct (kmem (KF f) s).
    - revert H. apply preserves_emit. apply preserves_emit. apply Hrun.
    - cbn [run_seq] in H. eapply run_seq_finally_set; eauto.
  Qed.

  Lemma preserves_call_meth run o m cd body : (forall sc, preserves (run sc)) -> preserves (call_meth run o m cd body).
  Proof.
    intros Hrun s t r s' H. unfold call_meth in H. cbn [run_seq] in H.
    destruct (kmem (KO o) s).
    - revert H. apply preserves_emit. apply preserves_emit. apply Hrun.
    - cbn [run_seq] in H. eapply run_seq_finally_set; eauto.
  Qed.

  Lemma preserves_call_init run o cd : (forall sc, preserves (run sc)) -> preserves (call_init run o cd).
  Proof.
    intros Hrun s t r s' H. unfold call_init in H. cbn [run_seq] in H.
    destruct (kmem (KO o) s).
    - revert H. apply preserves_emit. apply preserves_emit. apply Hrun.
    - cbn [run_seq] in H. eapply run_seq_finally_set; eauto.
  Qed.

  Lemma preserves_conj0 run mk l : (forall sc, preserves (run sc)) -> forall i, preserves (run_conj run mk i l).
  Proof.
    intros Hrun. induction l as [|sc r IH]; intros i; cbn; [apply preserves_ret|].
    apply preserves_emit. apply preserves_pbind; [apply Hrun|]. intros [|]; [apply IH | apply preserves_raise].
  Qed.

  Lemma preserves_call_new run o cd : (forall sc, preserves (run sc)) -> preserves (call_new run o cd).
  Proof.
    intros Hrun. unfold call_new. apply preserves_emit. apply preserves_pbind; [apply Hrun|]. intros r.
    apply preserves_pbind; [apply preserves_conj0; exact Hrun | intros _; apply preserves_ret].
  Qed.

  Theorem exec_preserves P fuel : forall t, preserves (exec P fuel t).
  Proof.
    induction fuel as [|fuel IH]; intros t.
    - apply preserves_raise.
    - cbn [exec]. unfold dispatch.
      assert (forall sc, preserves (run_script (exec P fuel) sc)) as Hrun.
      { intros sc. apply preserves_script. exact IH. }
      destruct t as [f | o m | o | o].
      + destruct (get_fn P f); [apply preserves_call_fn; exact Hrun | apply preserves_raise].
      + destruct (class_of P o) as [cd|]; [|apply preserves_raise].
        destruct (nth_error (cl_meths cd) m); [apply preserves_call_meth; exact Hrun | apply preserves_raise].
      + destruct (class_of P o) as [cd|]; [apply preserves_call_init; exact Hrun | apply preserves_raise].
      + destruct (class_of P o) as [cd|]; [apply preserves_call_new; exact Hrun | apply preserves_raise].
  Qed.

  (** ** No lost error: the first exception that starts to propagate is the outcome; a normal
      outcome means no exception was raised anywhere. *)
  Fixpoint first_raise (t : list event) : option exn :=
    match t with
    | [] => None
    | EvRaise x :: _ => Some x
    | _ :: r => first_raise r
    end.

  Lemma first_raise_app t1 t2 :
    first_raise (t1 ++ t2) = match first_raise t1 with Some x => Some x | None => first_raise t2 end.
  Proof. induction t1 as [|e t1 IH]; cbn; auto. destruct e; auto. Qed.

  Definition faithful {A} (m : prog A) : Prop :=
    forall s t r s', run_seq plan m s = (t, r, s') ->
      match r with
      | ORet _ => first_raise t = None
      | OExn x => first_raise t = Some x
      end.

  Lemma faithful_ret {A} (a : A) : faithful (Ret a).
  Proof. intros s t r s' H. cbn in H. injection H as <- <- <-. reflexivity. Qed.
  Lemma faithful_raise {A} x : faithful (@raise_ A x).
  Proof. intros s t r s' H. cbn in H. injection H as <- <- <-. reflexivity. Qed.

  Lemma faithful_pbind {A B} (m : prog A) (f : A -> prog B) :
    faithful m -> (forall a, faithful (f a)) -> faithful (pbind m f).
  Proof.
    intros Hm Hf s t r s' H. rewrite run_seq_pbind in H.
    destruct (run_seq plan m s) as [[t0 [a|x]] s0] eqn:E.
    - destruct (run_seq plan (f a) s0) as [[t1 r1] s1] eqn:E1. injection H as <- <- <-.
      apply Hm in E. apply Hf in E1. cbn in E. rewrite first_raise_app, E. exact E1.
    - injection H as <- <- <-. apply Hm in E. exact E.
  Qed.

  Lemma faithful_emit_site {A} st (k : prog A) : faithful k -> faithful (Emit (EvSite st) k).
  Proof.
    intros Hk s t r s' H. cbn in H. destruct (run_seq plan k s) as [[t0 r0] s0] eqn:E.
    injection H as <- <- <-. apply Hk in E. exact E.
  Qed.
  Lemma faithful_emit_bare {A} tg (k : prog A) : faithful k -> faithful (Emit (EvBare tg) k).
  Proof.
    intros Hk s t r s' H. cbn in H. destruct (run_seq plan k s) as [[t0 r0] s0] eqn:E.
    injection H as <- <- <-. apply Hk in E. exact E.
  Qed.
  Lemma faithful_get {A} (k : kset -> prog A) : (forall s, faithful (k s)) -> faithful (GetP k).
  Proof. intros Hk s t r s' H. cbn in H. eapply Hk; eauto. Qed.
  Lemma faithful_set {A} s0 (k : prog A) : faithful k -> faithful (SetP s0 k).
  Proof. intros Hk s t r s' H. cbn in H. eapply Hk; eauto. Qed.

  (** [try/finally] with a finaliser that only publishes the saved set does not change the
      trace or the outcome *)
  Lemma run_seq_finally_obs {A} (m : prog A) (saved : kset) : forall s,
    fst (run_seq plan (finally_ m (SetP saved (Ret tt))) s) = fst (run_seq plan m s).
  Proof.
    induction m as [a | x | k IH | s0 k IH | ev k IH | pt rs IHr c IHc]; intros s; cbn; auto.
    - specialize (IH s). destruct (run_seq plan (finally_ k (SetP saved (Ret tt))) s) as [[t0 r0] s0].
      destruct (run_seq plan k s) as [[t1 r1] s1]. cbn in *. injection IH as -> ->. reflexivity.
    - destruct (plan pt); auto.
  Qed.

  Lemma faithful_finally {A} (m : prog A) saved : faithful m -> faithful (finally_ m (SetP saved (Ret tt))).
  Proof.
    intros Hm s t r s' H. pose proof (run_seq_finally_obs m saved s) as Ho. rewrite H in Ho. cbn in Ho.
    destruct (run_seq plan m s) as [[t1 r1] s1] eqn:E. cbn in Ho. injection Ho as <- <-.
    eapply Hm; eauto.
  Qed.

  Section ScriptsF.
    Variable call : target -> prog bool.
    Hypothesis Hcall : forall t, faithful (call t).

    Lemma faithful_actions acts v : faithful (run_actions call acts v).
    Proof.
      induction acts as [|a rest IH]; cbn.
      - destruct v; [apply faithful_ret | apply faithful_raise].
      - destruct a as [t|pt].
        + apply faithful_pbind; [apply Hcall | intros _; exact IH].
        + intros s t r s' H. cbn in H. destruct (plan pt).
          * cbn in H. injection H as <- <- <-. reflexivity.
          * eapply IH; eauto.
    Qed.
  End ScriptsF.

  Section Lists.
    Variable run : script -> prog bool.
    Hypothesis Hrun : forall sc, faithful (run sc).

    Lemma faithful_conj mk l : forall i, faithful (run_conj run mk i l).
    Proof.
      induction l as [|sc rest IH]; intros i; cbn; [apply faithful_ret|].
      apply faithful_emit_site. apply faithful_pbind; [apply Hrun|].
      intros [|]; [apply IH | apply faithful_raise].
    Qed.

    Lemma faithful_all mk l : forall i, faithful (run_all run mk i l).
    Proof.
      induction l as [|sc rest IH]; intros i; cbn; [apply faithful_ret|].
      apply faithful_emit_site. apply faithful_pbind; [apply Hrun | intros _; apply IH].
    Qed.

    Lemma faithful_group f g l : forall i, faithful (run_group run f g i l).
    Proof.
      induction l as [|sc rest IH]; intros i; cbn; [apply faithful_ret|].
      apply faithful_emit_site. apply faithful_pbind; [apply Hrun|].
      intros [|]; [apply IH | apply faithful_ret].
    Qed.

    Lemma faithful_groups f gs : forall g, faithful (run_groups run f g gs).
    Proof.
      induction gs as [|grp rest IH]; intros g; cbn; [apply faithful_ret|].
      apply faithful_pbind; [apply faithful_group|].
      intros [x|]; [|apply faithful_ret]. destruct rest; [apply faithful_raise | apply IH].
    Qed.

    Lemma faithful_call_fn f fd : faithful (call_fn run f fd).
    Proof.
      unfold call_fn. apply faithful_get. intros s. destruct (kmem (KF f) s).
      - apply faithful_emit_bare, faithful_emit_site, Hrun.
      - apply faithful_set, faithful_finally.
        apply faithful_pbind; [apply faithful_groups|]. intros _.
        apply faithful_pbind; [destruct (fn_post fd); [apply faithful_ret | apply faithful_all]|]. intros _.
        apply faithful_set, faithful_emit_site. apply faithful_pbind; [apply Hrun|]. intros r.
        apply faithful_set. apply faithful_pbind; [apply faithful_conj | intros _; apply faithful_ret].
    Qed.

    Lemma faithful_call_meth o m cd body : faithful (call_meth run o m cd body).
    Proof.
      unfold call_meth. apply faithful_get. intros s. destruct (kmem (KO o) s).
      - apply faithful_emit_bare, faithful_emit_site, Hrun.
      - apply faithful_set, faithful_finally.
        apply faithful_pbind; [apply faithful_conj|]. intros _.
        apply faithful_emit_site. apply faithful_pbind; [apply Hrun|]. intros r.
        apply faithful_pbind; [apply faithful_conj | intros _; apply faithful_ret].
    Qed.

    Lemma faithful_call_init o cd : faithful (call_init run o cd).
    Proof.
      unfold call_init. apply faithful_get. intros s. destruct (kmem (KO o) s).
      - apply faithful_emit_bare, faithful_emit_site, Hrun.
      - apply faithful_set, faithful_finally.
        apply faithful_emit_site. apply faithful_pbind; [apply Hrun|]. intros r.
        apply faithful_pbind; [apply faithful_conj | intros _; apply faithful_ret].
    Qed.
    Lemma faithful_call_new o cd : faithful (call_new run o cd).
    Proof.
      unfold call_new. apply faithful_emit_site. apply faithful_pbind; [apply Hrun|]. intros r.
      apply faithful_pbind; [apply faithful_conj | intros _; apply faithful_ret].
    Qed.
  End Lists.

  Theorem exec_faithful P fuel : forall t, faithful (exec P fuel t).
  Proof.
    induction fuel as [|fuel IH]; intros t.
    - apply faithful_raise.
    - cbn [exec]. unfold dispatch.
      assert (forall sc, faithful (run_script (exec P fuel) sc)) as Hrun.
      { intros sc. apply faithful_actions. exact IH. }
      destruct t as [f | o m | o | o].
      + destruct (get_fn P f); [apply faithful_call_fn; exact Hrun | apply faithful_raise].
      + destruct (class_of P o) as [cd|]; [|apply faithful_raise].
        destruct (nth_error (cl_meths cd) m); [apply faithful_call_meth; exact Hrun | apply faithful_raise].
      + destruct (class_of P o) as [cd|]; [apply faithful_call_init; exact Hrun | apply faithful_raise].
      + destruct (class_of P o) as [cd|]; [apply faithful_call_new; exact Hrun | apply faithful_raise].
  Qed.
End Seq.
