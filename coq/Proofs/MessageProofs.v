(** Proofs about the assembly of the message: sorting, keyword-order independence, what is left out,
    bounds, and the first counterexample of a failing all(). *)
From Coq Require Import List String ZArith Bool Ascii Arith Lia Sorting.Permutation Sorting.Sorted.
From ICV Require Import Expr PyPrims Message.
Import ListNotations.
Open Scope string_scope.
Open Scope list_scope.

(** ** the order on keys: by code point, as Python compares str *)
Lemma nat_of_ascii_inj a b : nat_of_ascii a = nat_of_ascii b -> a = b.
Proof. intro H. rewrite <- (ascii_nat_embedding a), <- (ascii_nat_embedding b), H. reflexivity. Qed.

Lemma str_ltb_irrefl s : str_ltb s s = false.
Proof. induction s as [|a s IH]; cbn [str_ltb]; [reflexivity|]. rewrite Nat.ltb_irrefl. exact IH. Qed.

Lemma str_ltb_trans a : forall b c, str_ltb a b = true -> str_ltb b c = true -> str_ltb a c = true.
Proof.
  induction a as [|x a IH]; intros [|y b] [|z c]; cbn [str_ltb]; try congruence.
  destruct (Nat.ltb_spec (nat_of_ascii x) (nat_of_ascii y)) as [Hxy|Hxy];
  destruct (Nat.ltb_spec (nat_of_ascii y) (nat_of_ascii z)) as [Hyz|Hyz]; intros H1 H2.
  - destruct (Nat.ltb_spec (nat_of_ascii x) (nat_of_ascii z)); [reflexivity|lia].
  - destruct (Nat.ltb_spec (nat_of_ascii z) (nat_of_ascii y)); [discriminate|].
    assert (nat_of_ascii y = nat_of_ascii z) by lia.
    destruct (Nat.ltb_spec (nat_of_ascii x) (nat_of_ascii z)); [reflexivity|lia].
  - destruct (Nat.ltb_spec (nat_of_ascii y) (nat_of_ascii x)); [discriminate|].
    assert (nat_of_ascii x = nat_of_ascii y) by lia.
    destruct (Nat.ltb_spec (nat_of_ascii x) (nat_of_ascii z)); [reflexivity|lia].
  - destruct (Nat.ltb_spec (nat_of_ascii y) (nat_of_ascii x)); [discriminate|].
    destruct (Nat.ltb_spec (nat_of_ascii z) (nat_of_ascii y)); [discriminate|].
    assert (nat_of_ascii x = nat_of_ascii z) by lia.
    destruct (Nat.ltb_spec (nat_of_ascii x) (nat_of_ascii z)); [lia|].
    destruct (Nat.ltb_spec (nat_of_ascii z) (nat_of_ascii x)); [lia|].
    eapply IH; eassumption.
Qed.

Lemma str_ltb_total a : forall b, str_ltb a b = false -> str_ltb b a = false -> a = b.
Proof.
  induction a as [|x a IH]; intros [|y b]; cbn [str_ltb]; try congruence.
  destruct (Nat.ltb_spec (nat_of_ascii x) (nat_of_ascii y)); [discriminate|].
  destruct (Nat.ltb_spec (nat_of_ascii y) (nat_of_ascii x)); [discriminate|].
  intros H1 H2. assert (E : nat_of_ascii x = nat_of_ascii y) by lia.
  apply nat_of_ascii_inj in E. subst. f_equal. apply IH; assumption.
Qed.

Definition key_le (p q : string * val) : Prop := str_ltb (fst q) (fst p) = false.

(** ** insertion sort on keys *)
Lemma insert_line_perm p l : Permutation (p :: l) (insert_line p l).
Proof.
  induction l as [|q r IH]; cbn; [apply Permutation_refl|].
  destruct (str_ltb (fst q) (fst p)).
  - eapply Permutation_trans; [apply perm_swap|]. apply perm_skip. exact IH.
  - apply Permutation_refl.
Qed.

Lemma sort_lines_perm l : Permutation l (sort_lines l).
Proof.
  induction l as [|p r IH]; cbn; [apply Permutation_refl|].
  eapply Permutation_trans; [apply perm_skip; exact IH|]. apply insert_line_perm.
Qed.

Lemma insert_line_hd p l d : key_le d p -> HdRel key_le d l -> HdRel key_le d (insert_line p l).
Proof.
  intros Hp Hl. destruct l as [|q r]; cbn; [constructor; exact Hp|].
  destruct (str_ltb (fst q) (fst p)); constructor; [inversion Hl; assumption|exact Hp].
Qed.

Lemma insert_line_sorted p l : Sorted key_le l -> Sorted key_le (insert_line p l).
Proof.
  induction l as [|q r IH]; cbn; intro Hs; [repeat constructor|].
  inversion Hs as [|? ? Hr Hh]; subst.
  destruct (str_ltb (fst q) (fst p)) eqn:E.
  - constructor; [apply IH; exact Hr|].
    apply insert_line_hd; [|exact Hh].
    unfold key_le. destruct (str_ltb (fst p) (fst q)) eqn:E2; [|reflexivity].
    pose proof (str_ltb_trans _ _ _ E E2) as Hc. rewrite str_ltb_irrefl in Hc. discriminate.
  - constructor; [exact Hs|]. constructor. exact E.
Qed.

Lemma sort_lines_sorted l : Sorted key_le (sort_lines l).
Proof. induction l as [|p r IH]; cbn; [constructor|]. apply insert_line_sorted. exact IH. Qed.

(** sorting is a function of the multiset of lines as soon as the keys are distinct: the order in
    which keyword arguments were given cannot show *)
Lemma key_le_trans a b c : key_le a b -> key_le b c -> key_le a c.
Proof.
  unfold key_le. intros H1 H2.
  destruct (str_ltb (fst c) (fst a)) eqn:E; [|reflexivity].
  destruct (str_ltb (fst b) (fst c)) eqn:E2.
  - pose proof (str_ltb_trans _ _ _ E2 E) as Hc. congruence.
  - assert (fst b = fst c) by (apply str_ltb_total; assumption). congruence.
Qed.

Lemma sorted_strongly l : Sorted key_le l -> StronglySorted key_le l.
Proof. apply Sorted_StronglySorted. intros a b c. apply key_le_trans. Qed.

Definition distinct_keys (l : lines) : Prop := NoDup (map fst l).

Lemma sorted_perm_unique : forall l1 l2,
  StronglySorted key_le l1 -> StronglySorted key_le l2 -> Permutation l1 l2 -> distinct_keys l1 -> l1 = l2.
Proof.
  induction l1 as [|a r1 IH]; intros l2 S1 S2 Hp Hd.
  - apply Permutation_nil in Hp. subst. reflexivity.
  - destruct l2 as [|b r2]; [apply Permutation_sym, Permutation_nil in Hp; discriminate|].
    inversion S1 as [|? ? S1' F1]; subst. inversion S2 as [|? ? S2' F2]; subst.
    assert (Hab : a = b).
    { assert (Ia : In a (b :: r2)) by (eapply Permutation_in; [exact Hp|left; reflexivity]).
      assert (Ib : In b (a :: r1)) by (eapply Permutation_in; [apply Permutation_sym; exact Hp|left; reflexivity]).
      destruct Ia as [E|Ia]; [congruence|]. destruct Ib as [E|Ib]; [congruence|].
      rewrite Forall_forall in F1, F2. specialize (F1 _ Ib). specialize (F2 _ Ia).
      unfold key_le in F1, F2. assert (Ek : fst a = fst b) by (apply str_ltb_total; assumption).
      exfalso. unfold distinct_keys in Hd. cbn in Hd. inversion Hd as [|? ? Hn _]; subst.
      apply Hn. rewrite Ek. apply in_map. exact Ib. }
    subst b. f_equal. apply IH; [assumption|assumption|eapply Permutation_cons_inv; exact Hp|].
    unfold distinct_keys in *. cbn in Hd. inversion Hd; assumption.
Qed.

Theorem sort_lines_order_independent l1 l2 :
  Permutation l1 l2 -> distinct_keys l1 -> sort_lines l1 = sort_lines l2.
Proof.
  intros Hp Hd. apply sorted_perm_unique.
  - apply sorted_strongly, sort_lines_sorted.
  - apply sorted_strongly, sort_lines_sorted.
  - eapply Permutation_trans; [apply Permutation_sym, sort_lines_perm|].
    eapply Permutation_trans; [exact Hp|apply sort_lines_perm].
  - unfold distinct_keys. eapply Permutation_NoDup; [|exact Hd]. apply Permutation_map, sort_lines_perm.
Qed.

(** ** [_ARGS] / [_KWARGS] *)
Lemma selected_kwargs_hides kw cps p :
  In p (selected_kwargs kw cps) -> (fst p = "_ARGS" \/ fst p = "_KWARGS") -> In (fst p) cps.
Proof.
  unfold selected_kwargs. rewrite filter_In. intros [_ H] Hk.
  assert (E : (String.eqb (fst p) "_ARGS" || String.eqb (fst p) "_KWARGS") = true).
  { destruct Hk as [-> | ->]; reflexivity. }
  rewrite E in H. cbn in H. rewrite negb_true_iff, negb_false_iff in H.
  apply existsb_exists in H. destruct H as [x [Hx Hex]]. apply String.eqb_eq in Hex. subst. exact Hx.
Qed.

(** ** arguments: only representable ones are added, and never over an existing key *)
Lemma add_arguments_in acc sel p :
  In p (add_arguments acc sel) -> In p acc \/ (In p sel /\ representable (snd p) = true).
Proof.
  unfold add_arguments.
  assert (G : forall l a,
            In p (fold_left (fun a q => if negb (line_has a (fst q)) && representable (snd q) then a ++ [q] else a) l a) ->
            In p a \/ (In p l /\ representable (snd p) = true)).
  { induction l as [|q r IH]; cbn; intros a H; [left; exact H|].
    apply IH in H. destruct H as [H|[H1 H2]]; [|right; split; [right; exact H1|exact H2]].
    destruct (negb (line_has a (fst q)) && representable (snd q)) eqn:E; [|left; exact H].
    apply in_app_or in H. destruct H as [H|H]; [left; exact H|]. cbn in H. destruct H as [H|H]; [|contradiction]. subst q.
    apply andb_prop in E. right. split; [left; reflexivity|apply E]. }
  intro H. apply G in H. destruct H as [H|[H1 H2]]; [left; exact H|right]. split; [|exact H2].
  eapply Permutation_in; [apply Permutation_sym, sort_lines_perm|exact H1].
Qed.

Lemma add_arguments_keeps acc sel p : In p acc -> In p (add_arguments acc sel).
Proof.
  unfold add_arguments. generalize (sort_lines sel). intro l. revert acc.
  induction l as [|q r IH]; cbn; intros acc H; [exact H|].
  apply IH. destruct (negb (line_has acc (fst q)) && representable (snd q)); [apply in_or_app; left|]; exact H.
Qed.

(** every representable argument ends up with a line under its name *)
Lemma line_has_in l k : line_has l k = true <-> exists v, In (k, v) l.
Proof.
  unfold line_has. rewrite existsb_exists. split.
  - intros [[k' v] [Hin He]]. cbn in He. apply String.eqb_eq in He. subst. exists v. exact Hin.
  - intros [v Hin]. exists (k, v). split; [exact Hin|apply String.eqb_refl].
Qed.

Lemma add_arguments_lists acc sel k v :
  In (k, v) sel -> representable v = true -> line_has (add_arguments acc sel) k = true.
Proof.
  unfold add_arguments. intros Hin Hr.
  assert (Hin' : In (k, v) (sort_lines sel)) by (eapply Permutation_in; [apply sort_lines_perm|exact Hin]).
  revert acc Hin'. generalize (sort_lines sel). intro l.
  induction l as [|q r IH]; cbn; intros acc H; [contradiction|]. destruct H as [H|H].
  - subst q. cbn.
    assert (K : forall l' a, line_has a k = true ->
              line_has (fold_left (fun a q => if negb (line_has a (fst q)) && representable (snd q) then a ++ [q] else a) l' a) k = true).
    { induction l' as [|q' r' IH']; cbn; intros a Ha; [exact Ha|]. apply IH'.
      destruct (negb (line_has a (fst q')) && representable (snd q')); [|exact Ha].
      unfold line_has in *. rewrite existsb_app, Ha. reflexivity. }
    apply K. destruct (line_has acc k) eqn:E; cbn; [exact E|]. rewrite Hr. cbn.
    unfold line_has. rewrite existsb_app. cbn. rewrite String.eqb_refl. apply orb_true_r.
  - apply IH. exact H.
Qed.

(** ** rendering: every value goes through the contract's own repr, and its bound carries over *)
Lemma render_line_plain R k v :
  (forall r i, v <> VAllFail r i) -> render_line R (k, v) = (k ++ " was " ++ R v)%string.
Proof. intro H. destruct v; try reflexivity. exfalso. eapply H. reflexivity. Qed.

Lemma sapp_assoc a b c : ((a ++ b) ++ c = a ++ (b ++ c))%string.
Proof. induction a as [|x a IH]; cbn; [reflexivity|]. rewrite IH. reflexivity. Qed.

Lemma length_append a b : String.length (a ++ b)%string = (String.length a + String.length b)%nat.
Proof. induction a as [|c a IH]; cbn; [reflexivity|]. rewrite IH. reflexivity. Qed.

Lemma render_line_bounded R L k v :
  (forall r i, v <> VAllFail r i) -> (String.length (R v) <= L)%nat ->
  (String.length (render_line R (k, v)) <= String.length k + 5 + L)%nat.
Proof.
  intros Hv Hl. rewrite render_line_plain by exact Hv. rewrite !length_append. cbn. lia.
Qed.

(** ** the first counterexample of a failing all(<generator>) *)
Section AllFirst.
Variable P : prims.

Definition elt_truth (elt : expr) (m : env) : res bool :=
  match run_inner (ev P 0 elt) m with
  | Ok v => p_truth P v
  | Err x => Err x
  end.

Lemma first_failing_is_first elt names : forall envs v inputs,
  first_failing P elt names envs = Ok (Some (v, inputs)) ->
  exists pre m post,
    envs = map inl pre ++ inl m :: post /\
    (forall m', In m' pre -> elt_truth elt m' = Ok true) /\
    run_inner (ev P 0 elt) m = Ok v /\ p_truth P v = Ok false /\
    inputs = map (fun n => (n, match lookup m n with Some w => w | None => VNone end)) names.
Proof.
  induction envs as [|[m|x] r IH]; cbn; intros v inputs H; try discriminate.
  destruct (run_inner (ev P 0 elt) m) as [w|x] eqn:E; [|discriminate].
  destruct (p_truth P w) as [[|]|x] eqn:T; [| |discriminate].
  - apply IH in H. destruct H as [pre [m0 [post [He [Hp Hr]]]]].
    exists (m :: pre), m0, post. split; [cbn; rewrite He; reflexivity|]. split; [|exact Hr].
    intros m' [<-|Hin]; [unfold elt_truth; rewrite E; exact T|apply Hp; exact Hin].
  - injection H as <- <-. exists [], m, r. cbn. repeat split; try assumption. intros ? [].
Qed.
End AllFirst.
