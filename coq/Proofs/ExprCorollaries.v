(** Consequences of the refinement theorem for whole conditions, and facts about the concrete
    data model used in the correspondence. *)
From Coq Require Import List String ZArith Bool Arith Lia Sorting.Permutation Sorting.Sorted.
From ICV Require Import Expr PyPrims Message ExprRefine MessageProofs.
Import ListNotations.
Open Scope string_scope.
Open Scope list_scope.

(** the concrete data model calls callables only *)
Lemma py_call_callable f a k r : py_call f a k = Ok r -> py_callable f = true.
Proof. destruct f; cbn; try discriminate. reflexivity. Qed.

Section Cor.
Variable P : prims.
Hypothesis call_callable : forall f a k r, p_call P f a k = Ok r -> p_callable P f = true.

(** whenever Python evaluates a simple condition, the re-evaluator does not raise ... *)
Theorem no_replacement e m v m' l :
  simple e = true -> ev P 0 e (m, []) = Ok (v, (m', l)) ->
  exists r, rc P 0 e (up m, []) = Ok r.
Proof. intros Hs H. eexists. apply (rc_refines_ev P call_callable e Hs). exact H. Qed.

(** ... every value it records is the value Python computed for that node ... *)
Theorem recorded_is_computed e m v m' l x rm rl i w :
  simple e = true -> ev P 0 e (m, []) = Ok (v, (m', l)) ->
  rc P 0 e (up m, []) = Ok (x, (rm, rl)) -> In (i, w) rl -> In (i, w) l.
Proof.
  intros Hs H Hr Hin. rewrite (rc_refines_ev P call_callable e Hs _ _ _ _ H) in Hr.
  injection Hr as _ _ <-. exact Hin.
Qed.

(** ... and every node Python evaluated is recorded (so nothing Python skipped is evaluated and
    nothing it evaluated is missed) *)
Theorem computed_is_recorded e m v m' l x rm rl i w :
  simple e = true -> ev P 0 e (m, []) = Ok (v, (m', l)) ->
  rc P 0 e (up m, []) = Ok (x, (rm, rl)) -> In (i, w) l -> In (i, w) rl.
Proof.
  intros Hs H Hr Hin. rewrite (rc_refines_ev P call_callable e Hs _ _ _ _ H) in Hr.
  injection Hr as _ _ <-. exact Hin.
Qed.

Theorem same_value e m v m' l x s :
  simple e = true -> ev P 0 e (m, []) = Ok (v, (m', l)) -> rc P 0 e (up m, []) = Ok (x, s) -> x = Some v.
Proof.
  intros Hs H Hr. rewrite (rc_refines_ev P call_callable e Hs _ _ _ _ H) in Hr. injection Hr as <- _. reflexivity.
Qed.
End Cor.

(** ** what a line of the message can be *)
Lemma rec_lookup_in l i v : rec_lookup l i = Some v -> In (i, v) l.
Proof.
  induction l as [|[j w] r IH]; cbn; [discriminate|].
  destruct (rec_lookup r i) as [x|] eqn:E.
  - intro H. injection H as ->. right. apply IH. reflexivity.
  - destruct (Nat.eqb_spec j i); [|discriminate]. intro H. injection H as ->. subst. left. reflexivity.
Qed.

Lemma line_set_in l k v p : In p (line_set l k v) -> In p l \/ p = (k, v).
Proof.
  induction l as [|[k' w] r IH]; cbn.
  - intros [H|H]; [|contradiction]. subst p. right. reflexivity.
  - destruct (String.eqb k' k) eqn:E; cbn.
    + intros [H|H]; [subst p; right; apply String.eqb_eq in E; subst; reflexivity|left; right; exact H].
    + intros [H|H]; [subst p; left; left; reflexivity|]. apply IH in H. destruct H; [left; right; assumption|right; assumption].
Qed.

Lemma show_in recorded i chk key acc p :
  In p (show recorded i chk key acc) -> In p acc \/ (fst p = key /\ In (i, snd p) recorded /\ (chk = true -> representable (snd p) = true)).
Proof.
  unfold show. destruct (rec_lookup recorded i) as [v|] eqn:E; [|left; assumption].
  destruct (negb chk || representable v) eqn:C; [|left; assumption].
  intro H. apply line_set_in in H. destruct H as [H|H]; [left; exact H|right]. subst p.
  cbn. split; [reflexivity|]. split; [apply rec_lookup_in; exact E|].
  intros ->. cbn in C. exact C.
Qed.

(** sorting and the argument lines do not invent lines *)
Lemma value_lines_in text recorded tables body kwargs cps p :
  In p (value_lines text recorded tables (Some body) kwargs cps) ->
  In p (reprs text recorded tables 0 body []) \/
  (In p (selected_kwargs kwargs cps) /\ representable (snd p) = true).
Proof.
  unfold value_lines. intro H.
  eapply Permutation_in in H; [|apply Permutation_sym, sort_lines_perm].
  apply add_arguments_in in H. exact H.
Qed.

Lemma value_lines_sorted text recorded tables body kwargs cps :
  Sorted key_le (value_lines text recorded tables body kwargs cps).
Proof. unfold value_lines. apply sort_lines_sorted. Qed.

(** the order in which keyword arguments were passed does not show in the argument lines *)
Lemma selected_kwargs_perm kw kw' cps : Permutation kw kw' -> Permutation (selected_kwargs kw cps) (selected_kwargs kw' cps).
Proof.
  unfold selected_kwargs. induction 1; cbn.
  - constructor.
  - destruct (negb _); [constructor|]; assumption.
  - destruct (negb _), (negb _); try constructor; try apply Permutation_refl. 
  - eapply Permutation_trans; eassumption.
Qed.

Lemma filter_map_fst_NoDup {A} (f : string * A -> bool) l : NoDup (map fst l) -> NoDup (map fst (filter f l)).
Proof.
  induction l as [|a r IH]; cbn; intro H; [constructor|]. inversion H as [|? ? Hn Hr]; subst.
  destruct (f a); cbn; [|apply IH; exact Hr]. constructor; [|apply IH; exact Hr].
  intro Hin. apply Hn. apply in_map_iff in Hin. destruct Hin as [x [Hx Hin]]. apply filter_In in Hin.
  apply in_map_iff. exists x. split; [exact Hx|apply Hin].
Qed.

Theorem argument_lines_order_independent acc kw kw' cps :
  Permutation kw kw' -> NoDup (map fst kw) ->
  add_arguments acc (selected_kwargs kw cps) = add_arguments acc (selected_kwargs kw' cps).
Proof.
  intros Hp Hd. unfold add_arguments. f_equal.
  apply sort_lines_order_independent; [apply selected_kwargs_perm; exact Hp|].
  unfold distinct_keys, selected_kwargs. apply filter_map_fst_NoDup. exact Hd.
Qed.
