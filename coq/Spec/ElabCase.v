(** Cases of the definition cluster (C04, C08, C14, C15, C16, C17, C18, C19): a history of
    definitions (functions with decorator stacks, classes with members and class decorators) and
    what can be seen through the documented introspection interface after each step. *)
From ICV Require Import Base Bind Checker Elab.
Open Scope string_scope.
Open Scope list_scope.

Record fview := {
  fv_chain : list frole;          (* the __wrapped__ chain, outermost first *)
  fv_pre : list (list Z);         (* ids of the preconditions on the wrapper that enforces them, by group *)
  fv_snaps : list Z;
  fv_post : list Z;
  fv_intro : bool;                (* [find_checker] - the introspection interface - returns that very wrapper *)
  fv_meta : bool }.               (* name, qualname, doc, module, annotations, signature, abstractness and
                                     coroutine-ness of the outermost object are those of the original function,
                                     which is the end of the __wrapped__ chain (a functools / inspect fact:
                                     observed, the model has nothing to say about it) *)

Definition view_func (w : world) (f : nat) : fview :=
  let roles := flat_map (fun i => match get_func w i with Some fo => [fo_role fo] | None => [] end) (chain w f) in
  match find_checker w f with
  | Some ch =>
      match get_func w ch with
      | Some fo =>
          {| fv_chain := roles;
             fv_pre := match fo_pre fo with Some r => map (map cid) (groups_of w r) | None => [] end;
             fv_snaps := match fo_snaps fo with Some r => map sid (snapshots_of w r) | None => [] end;
             fv_post := match fo_post fo with Some r => map cid (contracts_of w r) | None => [] end;
             fv_intro := true; fv_meta := true |}
      | None => {| fv_chain := roles; fv_pre := []; fv_snaps := []; fv_post := []; fv_intro := true; fv_meta := true |}
      end
  | None => {| fv_chain := roles; fv_pre := []; fv_snaps := []; fv_post := []; fv_intro := true; fv_meta := true |}
  end.

Inductive mview :=
| VFunc (k : mkind) (v : fview)
| VProp (g s d : option fview)
| VSlot
| VAbsent.

Definition ends_in_pass_on (w : world) (f : nat) : bool :=
  match rev (chain w f) with
  | i :: _ => match get_func w i with
              | Some fo => match fo_role fo with FPassOn => true | _ => false end
              | None => false
              end
  | [] => false
  end.

(** the member as it is reached at run time: a pass-on method continues with the classes after its owner, so the
    contracts in force are those of the definition found there *)
Fixpoint view_along (w : world) (ks : list nat) (name : string) : mview :=
  match ks with
  | [] => if str_in name object_slots then VSlot else VAbsent
  | k :: r =>
      match get_class w k with
      | Some c =>
          match ns_get (co_ns c) name with
          | Some (MemFunc kd f) =>
              let v := view_func w f in
              if ends_in_pass_on w f
              then match view_along w r name with
                   | VFunc _ v' => VFunc kd {| fv_chain := fv_chain v ++ fv_chain v'; fv_pre := fv_pre v';
                                               fv_snaps := fv_snaps v'; fv_post := fv_post v';
                                               fv_intro := fv_intro v'; fv_meta := fv_meta v |}
                   | _ => VFunc kd v
                   end
              else VFunc kd v
          | Some (MemProp g s d) =>
              VProp (option_map (view_func w) g) (option_map (view_func w) s) (option_map (view_func w) d)
          | Some (MemSlot _) => VSlot
          | None => view_along w r name
          end
      | None => view_along w r name
      end
  end.

Definition view_member (w : world) (k : nat) (name : string) : mview :=
  if negb (is_live w k) then VAbsent else     (* a class statement that raised bound nothing *)
  view_along w (mro_of w k) name.

(** the class (lowest index) whose list object is the very same as the one this class sees *)
Definition list_owner (w : world) (k : nat) (which : inv_list) : option nat :=
  match class_inv w k which with
  | None => None
  | Some r => find (fun j => match class_inv w j which with Some r' => Nat.eqb r r' | None => false end)
                   (seq 0 (List.length (w_classes w)))
  end.

Record cview := {
  cv_members : list mview;
  cv_invs : list Z;  cv_invs_call : list Z;  cv_invs_set : list Z;
  cv_owners : list (option nat) }.

Definition view_class (w : world) (names : list string) (k : nat) : cview :=
  {| cv_members := map (view_member w k) names;
     cv_invs := map cid (class_invs w k LInv);
     cv_invs_call := map cid (class_invs w k LCall);
     cv_invs_set := map cid (class_invs w k LSet);
     cv_owners := [list_owner w k LInv; list_owner w k LCall; list_owner w k LSet] |}.

Record wview := {
  wv_funcs : list fview;
  wv_classes : list cview;
  wv_registered : list nat }.

Definition view_world (w : world) (names : list string) : wview :=
  {| wv_funcs := map (view_func w) (w_module w);
     wv_classes := map (view_class w names) (seq 0 (List.length (w_classes w)));
     wv_registered := w_registered w |}.

Record ecase := { e_ops : list defop; e_names : list string }.

(** after every step: the exception class raised by the definition (if any) and the view of the world *)
Fixpoint run_history (w : world) (names : list string) (ops : list defop) : list (option string * wview) :=
  match ops with
  | [] => []
  | op :: rest =>
      match step_def w op with
      | Ok w' => (None, view_world w' names) :: run_history w' names rest
      | Err e => (Some e, view_world (fail_def w op) names) :: run_history (fail_def w op) names rest
      end
  end.

Definition run_ecase (c : ecase) : list (option string * wview) := run_history empty_world (e_names c) (e_ops c).

(** ** comparison *)
Definition frole_eqb (a b : frole) : bool :=
  match a, b with
  | FOrig, FOrig | FChecker, FChecker | FNewWrap, FNewWrap | FPassOn, FPassOn => true
  | FForeign x, FForeign y => Nat.eqb x y
  | FInvWrap x, FInvWrap y => Bool.eqb x y
  | _, _ => false
  end.

Fixpoint list_eqb {A} (eqb : A -> A -> bool) (a b : list A) : bool :=
  match a, b with
  | [], [] => true
  | x :: r, y :: r' => eqb x y && list_eqb eqb r r'
  | _, _ => false
  end.

Definition opt_eqb {A} (eqb : A -> A -> bool) (a b : option A) : bool :=
  match a, b with Some x, Some y => eqb x y | None, None => true | _, _ => false end.

Definition fview_eqb (a b : fview) : bool :=
  list_eqb frole_eqb (fv_chain a) (fv_chain b)
  && list_eqb (list_eqb Z.eqb) (fv_pre a) (fv_pre b)
  && list_eqb Z.eqb (fv_snaps a) (fv_snaps b)
  && list_eqb Z.eqb (fv_post a) (fv_post b)
  && Bool.eqb (fv_intro a) (fv_intro b)
  && Bool.eqb (fv_meta a) (fv_meta b).

Definition mkind_eqb (a b : mkind) : bool :=
  match a, b with
  | MPlain, MPlain | MStatic, MStatic | MClassM, MClassM | MGet, MGet | MSet, MSet | MDel, MDel => true
  | _, _ => false
  end.

Definition mview_eqb (a b : mview) : bool :=
  match a, b with
  | VFunc k v, VFunc k' v' => mkind_eqb k k' && fview_eqb v v'
  | VProp g s d, VProp g' s' d' => opt_eqb fview_eqb g g' && opt_eqb fview_eqb s s' && opt_eqb fview_eqb d d'
  | VSlot, VSlot | VAbsent, VAbsent => true
  | _, _ => false
  end.

Definition cview_eqb (a b : cview) : bool :=
  list_eqb mview_eqb (cv_members a) (cv_members b)
  && list_eqb Z.eqb (cv_invs a) (cv_invs b) && list_eqb Z.eqb (cv_invs_call a) (cv_invs_call b)
  && list_eqb Z.eqb (cv_invs_set a) (cv_invs_set b)
  && list_eqb (opt_eqb Nat.eqb) (cv_owners a) (cv_owners b).

Definition wview_eqb (a b : wview) : bool :=
  list_eqb fview_eqb (wv_funcs a) (wv_funcs b)
  && list_eqb cview_eqb (wv_classes a) (wv_classes b)
  && list_eqb Nat.eqb (wv_registered a) (wv_registered b).

Definition step_eqb (a b : option string * wview) : bool :=
  opt_eqb String.eqb (fst a) (fst b) && wview_eqb (snd a) (snd b).

Definition history_eqb (a b : list (option string * wview)) : bool := list_eqb step_eqb a b.

(** where two histories first differ: [step; component; class; member] (component: 0 error, 1 module
    functions, 2 classes, 3 registration; -1 = equal) *)
Fixpoint first_false {A} (f : A -> A -> bool) (a b : list A) (i : Z) : Z :=
  match a, b with
  | [], [] => (-1)%Z
  | x :: r, y :: r' => if f x y then first_false f r r' (i + 1)%Z else i
  | _, _ => i
  end.

Definition diff_step (a b : option string * wview) : list Z :=
  if negb (opt_eqb String.eqb (fst a) (fst b)) then [0%Z]
  else if negb (list_eqb fview_eqb (wv_funcs (snd a)) (wv_funcs (snd b)))
       then [1%Z; first_false fview_eqb (wv_funcs (snd a)) (wv_funcs (snd b)) 0]
  else if negb (list_eqb cview_eqb (wv_classes (snd a)) (wv_classes (snd b)))
       then let k := first_false cview_eqb (wv_classes (snd a)) (wv_classes (snd b)) 0 in
            match nth_error (wv_classes (snd a)) (Z.to_nat k), nth_error (wv_classes (snd b)) (Z.to_nat k) with
            | Some ca, Some cb =>
                [2%Z; k; first_false mview_eqb (cv_members ca) (cv_members cb) 0;
                 if list_eqb Z.eqb (cv_invs ca) (cv_invs cb) && list_eqb Z.eqb (cv_invs_call ca) (cv_invs_call cb)
                    && list_eqb Z.eqb (cv_invs_set ca) (cv_invs_set cb) then 0%Z else 1%Z;
                 if list_eqb (opt_eqb Nat.eqb) (cv_owners ca) (cv_owners cb) then 0%Z else 1%Z]
            | _, _ => [2%Z; k]
            end
  else [3%Z].

Fixpoint first_diff (a b : list (option string * wview)) (i : Z) : list Z :=
  match a, b with
  | [], [] => [(-1)%Z]
  | x :: r, y :: r' => if step_eqb x y then first_diff r r' (i + 1)%Z else i :: diff_step x y
  | _, _ => [i; (-2)%Z]
  end.
