(** Executable comparison of one C05 correspondence case: model vs. implementation
    observation, and the specification [spec_C05] evaluated on the implementation's observation. *)
From ICV Require Import Base Bind.
Open Scope string_scope.
Open Scope list_scope.

Definition opt_dict_eqb (a b : option dict) : bool :=
  match a, b with
  | Some x, Some y => pv_eqb (PDict x) (PDict y)
  | None, None => true
  | _, _ => false
  end.

Definition opt_pv_eqb (a b : option pv) : bool :=
  match a, b with
  | Some x, Some y => pv_eqb x y
  | None, None => true
  | _, _ => false
  end.

Definition b2z (b : bool) : Z := if b then 1%Z else 0%Z.

Definition requested (s : sig) : list string := map pname (named_params s) ++ ["_ARGS"; "_KWARGS"].

(** qq code from the implementation: 0 = condition evaluated, 1 = TypeError naming qq, 2 = anything else *)
Definition check_case (s : sig) (args : list pv) (kwargs : dict)
           (impl_raw : dict) (bare_env : option dict) (impl_ok : bool)
           (impl_env impl_seen : option dict) (qq_code : Z) (qq_seen : option pv) : list Z :=
  let model_env := pybind s args kwargs in
  let model_res := resolve_sig s args kwargs in
  let c1 := negb (opt_dict_eqb model_env bare_env) in
  let c2 := negb (pv_eqb (PDict model_res) (PDict impl_raw)) in
  let seen_ok :=
      match impl_seen with
      | Some seen => forallb (fun n => opt_pv_eqb (dict_get seen n) (dict_get model_res n)) (requested s)
      | None => false
      end in
  let c3 := negb (Bool.eqb impl_ok (match model_env with Some _ => true | None => false end)
                  && (match model_env with Some _ => opt_dict_eqb model_env impl_env | None => true end)
                  && seen_ok) in
  let c4 := match bare_env, impl_env, impl_seen with
            | Some _, Some env, Some seen => negb (spec_C05 s args kwargs seen env)
            | Some _, _, _ => true          (* Python can bind the call but the body never ran *)
            | None, _, _ => false
            end in
  let c5 := match dict_get model_res "qq" with
            | Some v => negb (Z.eqb qq_code 0 && opt_pv_eqb qq_seen (Some v))
            | None => negb (Z.eqb qq_code 1)
            end in
  let c5spec := (* a name the call does not provide -> TypeError naming it *)
      match bare_env with
      | Some _ => if dict_has kwargs "qq" then false else negb (Z.eqb qq_code 1)
      | None => false
      end in
  let kf := (b2z (kf_C05_surplus s args kwargs) + 2 * b2z (kf_C05_posonly s kwargs))%Z in
  [b2z c1; b2z c2; b2z c3; b2z c4; b2z c5; b2z c5spec; kf].
