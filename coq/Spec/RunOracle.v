(** Executable statements of C10 / C11 on the observation of a sequence of top-level operations. *)
From Coq Require Import List ZArith Bool Arith Lia.
From ICV Require Import Run RunCase RunRef.
Import ListNotations.

(** C10: every operation shows exactly the user code the stack rule prescribes (which calls had
    their contracts evaluated, which ran bare), started from no open frame. *)
Definition spec_C10_op (P : program) (fuel : nat) (op : target * list (nat * Z)) (o : robs) : bool :=
  match o, ref_exec P (plan_of (snd op)) fuel [] (fst op) with
  | (t, out, _), (t', out') => trace_eqb (visible t) (visible t') && out_eqb out out'
  end.

Fixpoint spec_ops (f : target * list (nat * Z) -> robs -> bool) (ops : list (target * list (nat * Z)))
         (obs : list robs) : bool :=
  match ops, obs with
  | [], [] => true
  | op :: r, o :: r' => f op o && spec_ops f r r'
  | _, _ => false
  end.

Definition spec_C10 (c : rcase) (obs : list robs) : bool :=
  spec_ops (spec_C10_op (r_prog c) (r_fuel c)) (r_ops c) obs.

(** C11: after every operation - whatever its outcome, whatever was raised or injected at a
    suspension point - the in-progress variable is what it was before (empty here), and the next
    operation behaves as in a fresh process. *)
Definition spec_C11 (c : rcase) (obs : list robs) : bool :=
  forallb (fun o => match o with (_, _, s) => match s with [] => true | _ => false end end) obs
  && spec_C10 c obs.

(** C14 on nested calls: an operation in which no contract is violated (by the stack rule's own
    account) ends exactly as the bare program would - same bodies entered, in the same order, same
    result or the body's own exception. *)
Definition is_body_event (e : event) : bool :=
  match e with
  | EvSite (SBody _) | EvSite (SMeth _ _) | EvSite (SInitBody _) => true
  | _ => false
  end.

Definition spec_C14_op (P : program) (fuel : nat) (op : target * list (nat * Z)) (o : robs) : bool :=
  match o, ref_exec P (plan_of (snd op)) fuel [] (fst op) with
  | (t, out, _), (t', out') =>
      match out' with
      | OExn (EViol _) => true
      | _ => trace_eqb (filter is_body_event t) (filter is_body_event t') && out_eqb out out'
      end
  end.

Definition spec_C14_run (c : rcase) (obs : list robs) : bool :=
  spec_ops (spec_C14_op (r_prog c) (r_fuel c)) (r_ops c) obs.
