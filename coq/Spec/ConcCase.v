(** Cases of C12: a program, a schedule (spawn / advance / cancel) and the observation of every
    task: the user code it ran, its outcome, the in-progress value of its context at the end. *)
From Coq Require Import List ZArith Bool Arith Lia.
From ICV Require Import Run RunCase Conc.
Import ListNotations.

Inductive cop :=
| CSpawn (h : inherit) (warm : bool) (t : target)   (* created by the main thread/task, idle; [warm]: after it ran contracted code *)
| CAdvance (t : nat)
| CCancel (t : nat) (e : Z).

Record ccase := { cc_prog : program; cc_ops : list cop; cc_fuel : nat }.

Definition to_sched (P : program) (fuel : nat) (op : cop) : sched_op :=
  match op with
  | CSpawn h _ t => Spawn None h (exec P fuel t)
  | CAdvance t => Advance t
  | CCancel t e => Cancel t e
  end.

Definition cobs := (list event * option (outcome bool) * kset)%type.

Definition run_ccase (c : ccase) : list cobs :=
  map (fun tk => (fst (task_obs tk), snd (task_obs tk), tk_value tk))
      (run_world (map (to_sched (cc_prog c) (cc_fuel c)) (cc_ops c))).

Definition opt_out_eqb (a b : option (outcome bool)) : bool :=
  match a, b with
  | Some x, Some y => out_eqb x y
  | None, None => true
  | _, _ => false
  end.

Definition cobs_eqb (a b : cobs) : bool :=
  match a, b with
  | (t, o, s), (t', o', s') =>
      trace_eqb (visible t) (visible t') && opt_out_eqb o o'
      && match o with Some _ => kset_eqb s s' | None => true end   (* the context of a suspended task is not inspected *)
  end.

Fixpoint cobs_list_eqb (a b : list cobs) : bool :=
  match a, b with
  | [], [] => true
  | x :: r, y :: r' => cobs_eqb x y && cobs_list_eqb r r'
  | _, _ => false
  end.

(** ** C12, executable: every task that ran to completion without being cancelled shows exactly
    what its call shows when made alone in a fresh context (the creator is idle: its own in-progress
    value is empty whether or not it ran contracted code before). *)
Fixpoint spawned (ops : list cop) : list target :=
  match ops with
  | [] => []
  | CSpawn _ _ t :: r => t :: spawned r
  | _ :: r => spawned r
  end.

Fixpoint cancelled (ops : list cop) (t : nat) : bool :=
  match ops with
  | [] => false
  | CCancel t' _ :: r => Nat.eqb t' t || cancelled r t
  | _ :: r => cancelled r t
  end.

Fixpoint spec_tasks (c : ccase) (i : nat) (ts : list target) (obs : list cobs) : bool :=
  match ts, obs with
  | [], [] => true
  | t :: r, (tr, o, s) :: r' =>
      (match o with
       | Some out =>
           if cancelled (cc_ops c) i then true
           else match run_seq no_faults (exec (cc_prog c) (cc_fuel c) t) [] with
                | (tr', out', s') => trace_eqb (visible tr) (visible tr') && out_eqb out out' && kset_eqb s s'
                end
       | None => true
       end) && spec_tasks c (S i) r r'
  | _, _ => false
  end.

Definition spec_C12 (c : ccase) (obs : list cobs) : bool := spec_tasks c 0 (spawned (cc_ops c)) obs.
