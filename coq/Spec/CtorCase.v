(** Cases for constructor chains (C03): the observation and the executable statement. *)
From Coq Require Import List Arith Bool.
From ICV Require Import Ctor.
Import ListNotations.

Record ccase := { cc_chain : chain; cc_need : list (nat * nat);   (* invariant id -> stage from which it holds *)
                  cc_k : nat }.

Definition verdict (need : list (nat * nat)) (id stage : nat) : bool :=
  match find (fun p => Nat.eqb (fst p) id) need with
  | Some p => Nat.leb (snd p) stage
  | None => true
  end.

Definition cevent_eqb (a b : cevent) : bool :=
  match a, b with
  | EInit c s, EInit c' s' | EInv c s, EInv c' s' => Nat.eqb c c' && Nat.eqb s s'
  | _, _ => false
  end.
Fixpoint cevents_eqb (a b : list cevent) : bool :=
  match a, b with
  | [], [] => true
  | x :: r, y :: r' => cevent_eqb x y && cevents_eqb r r'
  | _, _ => false
  end.
Definition oid_eqb (a b : option nat) : bool :=
  match a, b with Some x, Some y => Nat.eqb x y | None, None => true | _, _ => false end.

Definition run_ccase (c : ccase) := construct (cc_chain c) (verdict (cc_need c)) (cc_k c).

Definition is_inv (e : cevent) : bool := match e with EInv _ _ => true | _ => false end.
Definition is_init (e : cevent) : bool := match e with EInit _ _ => true | _ => false end.

Fixpoint last_init_index (l : list cevent) (i : nat) (best : nat) : nat :=
  match l with
  | [] => best
  | e :: r => last_init_index r (S i) (if is_init e then i else best)
  end.

(** C03 for constructors, on an observation (events, violated invariant or none):
    no invariant is evaluated before every constructor body of the chain that runs has started and
    all attribute assignments are done - i.e. every invariant event comes after the last body event
    and sees the final stage; the invariants evaluated are those of the class, inherited first, each
    at most once, up to the first falsy one, whose violation is the outcome. *)
Definition spec_C03_ctor (c : ccase) (ev : list cevent) (out : option nat) : bool :=
  let final := snd (run_body (S (List.length (cc_chain c))) (cc_chain c) (cc_k c) 0) in
  let invs := filter is_inv ev in
  let expected := check_invs (verdict (cc_need c)) (all_invs (cc_chain c) (cc_k c)) final in
  (* nothing is evaluated while the object is under construction *)
  (if existsb is_init ev then forallb (fun e => negb (is_inv e)) (firstn (S (last_init_index ev 0 0)) ev)
   else true (* no class of the chain has a constructor body *))
  && cevents_eqb invs (if has_invs (cc_chain c) (cc_k c) then fst expected else [])
  && oid_eqb out (if has_invs (cc_chain c) (cc_k c) then snd expected else None).
