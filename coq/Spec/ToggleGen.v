(** The enabled flag as /repo's own expressions compute it (translated on this run). *)
From Coq Require Import List String Bool.
From ICV Require Import Base Generated Toggle ToggleCase.

Definition enabled_code (m : pymode) (e : slow_env) (a : enabled_arg) (k : dkind) : bool :=
  match a with
  | EDefault => match k with
                | KRequire => enabled_default_require (debug_of m)
                | KEnsure => enabled_default_ensure (debug_of m)
                | KSnapshot => enabled_default_snapshot (debug_of m)
                | KInvariant => enabled_default_invariant (debug_of m)
                end
  | ETrue => true
  | EFalse => false
  | ESlow => slow_expr (debug_of m) (env_of e)
  end.

Lemma enabled_code_is_spec m e a k : enabled_code m e a k = enabled_spec m e a.
Proof. destruct a, k; try reflexivity; destruct m, e; reflexivity. Qed.
