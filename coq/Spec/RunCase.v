(** Cases of the re-entrancy cluster (C10, C11): a program, a sequence of top-level operations
    (each with a plan of exceptions injected at suspension points) run one after the other in one
    context.  The observation of an operation is its trace, its outcome and the content of the
    in-progress variable afterwards. *)
From Coq Require Import List ZArith Bool Arith Lia.
From ICV Require Import Run.
Import ListNotations.

Record rcase := {
  r_prog : program;
  r_ops : list (target * list (nat * Z));
  r_fuel : nat }.

Definition plan_of (l : list (nat * Z)) : nat -> option Z :=
  fun pt => match find (fun kv => Nat.eqb (fst kv) pt) l with Some kv => Some (snd kv) | None => None end.

Definition robs := (list event * outcome bool * kset)%type.

Fixpoint run_ops (P : program) (fuel : nat) (ops : list (target * list (nat * Z))) (s : kset) : list robs :=
  match ops with
  | [] => []
  | (t, pl) :: rest =>
      match run_seq (plan_of pl) (exec P fuel t) s with
      | (tr, out, s') => (tr, out, s') :: run_ops P fuel rest s'
      end
  end.

Definition run_rcase (c : rcase) : list robs := run_ops (r_prog c) (r_fuel c) (r_ops c) [].

(** ** comparing observations *)
Definition site_eqb (a b : site) : bool :=
  match a, b with
  | SPre f g i, SPre f' g' i' => Nat.eqb f f' && Nat.eqb g g' && Nat.eqb i i'
  | SCap f i, SCap f' i' | SPost f i, SPost f' i' | SInv f i, SInv f' i' | SMeth f i, SMeth f' i' =>
      Nat.eqb f f' && Nat.eqb i i'
  | SBody f, SBody f' | SInitBody f, SInitBody f' => Nat.eqb f f'
  | _, _ => false
  end.

Definition target_eqb (a b : target) : bool :=
  match a, b with
  | TFn f, TFn f' | TInit f, TInit f' | TNew f, TNew f' => Nat.eqb f f'
  | TMeth o m, TMeth o' m' => Nat.eqb o o' && Nat.eqb m m'
  | _, _ => false
  end.

Definition is_bare (e : event) : bool := match e with EvBare _ | EvRaise _ => true | _ => false end.

(** the implementation cannot observe the shortcut itself, only which user code ran *)
Definition visible (t : list event) : list event := filter (fun e => negb (is_bare e)) t.

Fixpoint trace_eqb (a b : list event) : bool :=
  match a, b with
  | [], [] => true
  | EvSite x :: r, EvSite y :: r' => site_eqb x y && trace_eqb r r'
  | _, _ => false
  end.

Definition exn_eqb (a b : exn) : bool :=
  match a, b with
  | EUser x, EUser y => Z.eqb x y
  | EViol x, EViol y => site_eqb x y
  | EFuel, EFuel => true
  | _, _ => false
  end.

Definition out_eqb (a b : outcome bool) : bool :=
  match a, b with
  | ORet _, ORet _ => true            (* return values of bodies are not compared here *)
  | OExn x, OExn y => exn_eqb x y
  | _, _ => false
  end.

Fixpoint kset_subset (a b : kset) : bool :=
  match a with [] => true | k :: r => kmem k b && kset_subset r b end.
Definition kset_eqb (a b : kset) : bool := kset_subset a b && kset_subset b a.

Definition robs_eqb (a b : robs) : bool :=
  match a, b with
  | (t, o, s), (t', o', s') => trace_eqb (visible t) (visible t') && out_eqb o o' && kset_eqb s s'
  end.

Fixpoint robs_list_eqb (a b : list robs) : bool :=
  match a, b with
  | [], [] => true
  | x :: r, y :: r' => robs_eqb x y && robs_list_eqb r r'
  | _, _ => false
  end.
