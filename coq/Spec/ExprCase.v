(** * Cases of the expression cluster (C06, C07, C20): one condition, one call.
    The model's run, the observation of the implementation and of CPython itself, the comparisons
    and the executable statements of the three properties. *)
From Coq Require Import List String ZArith Bool Ascii.
From ICV Require Import Expr PyPrims Message.
Import ListNotations.
Open Scope string_scope.
Open Scope list_scope.

Record xcase := {
  x_body : expr;                   (* body of the condition lambda *)
  x_texts : list string;           (* source text of each node of [subexprs x_body], in that order *)
  x_cond_params : list string;     (* parameters of the condition *)
  x_kwargs : env;                  (* resolved arguments of the call *)
  x_defaults : env;                (* parameters of the condition that the call does not supply: their default values *)
  x_closure : env;
  x_globals : env
}.

Definition text_of (c : xcase) (i : nat) : string := nth i (x_texts c) "?".
Definition node (c : xcase) (i : nat) : expr := nth i (subexprs (x_body c)) EOmit.

Definition tables (c : xcase) : list env :=
  match lookup_tables (x_kwargs c) (x_cond_params c) (x_closure c) (x_globals c) with
  | params :: rest => (params ++ x_defaults c) :: rest
  | [] => []
  end.
Definition start_env (c : xcase) : env := flatten (tables c).

Definition py_run (c : xcase) := ev py_prims 0 (x_body c) (start_env c, []).
Definition rc_run (c : xcase) := rc py_prims 0 (x_body c) (up (start_env c), []).

Inductive xoutcome :=
| XViolation (ls : lines)
| XRecomputeError
| XNoViolation
| XConditionRaises (e : err).

Definition model_lines (c : xcase) (recorded : log) : lines :=
  value_lines (text_of c) recorded (tables c) (Some (x_body c)) (x_kwargs c) (x_cond_params c).

Definition model_outcome (c : xcase) : xoutcome :=
  match py_run c with
  | Err e => XConditionRaises e
  | Ok (v, _) =>
      if truth_of v then XNoViolation else
      match rc_run c with
      | Err _ => XRecomputeError
      | Ok (_, (_, recorded)) => XViolation (model_lines c recorded)
      end
  end.

(** ** Observation *)
Record xobs := {
  o_outcome : Z;                    (* 0 ViolationError, 1 RuntimeError "Failed to recompute", 2 no error, 3 the condition raised, 4 other *)
  o_lines : lines;                  (* value lines of the message in order, values as handed to a_repr *)
  o_recorded : list (nat * val);    (* [Visitor.recomputed_values]: node index, value *)
  o_pylog : list (nat * val);       (* CPython, instrumented: node index and value in evaluation order, outer scope *)
  o_pyinner : list (nat * val);     (* the same for the nodes inside comprehension scopes: one entry per evaluation *)
  o_pytruth : option bool;          (* truth of the condition's value in CPython; None if it raised *)
  o_text_ok : bool                  (* the condition text in the message parses to the generated expression *)
}.

Fixpoint lines_eqb (a b : lines) : bool :=
  match a, b with
  | [], [] => true
  | (k1, v1) :: r1, (k2, v2) :: r2 => String.eqb k1 k2 && val_eqb v1 v2 && lines_eqb r1 r2
  | _, _ => false
  end.

Fixpoint ilog_eqb (a b : list (nat * val)) : bool :=
  match a, b with
  | [], [] => true
  | (i1, v1) :: r1, (i2, v2) :: r2 => Nat.eqb i1 i2 && val_eqb v1 v2 && ilog_eqb r1 r2
  | _, _ => false
  end.

Definition ilog_of (c : xcase) (l : log) : list (nat * val) := l.

(** slice objects are built by the interpreter and by the re-evaluator, but are not values of the
    instrumented expression *)
Definition no_slices (c : xcase) (l : log) : log :=
  filter (fun p => match node c (fst p) with ESlice _ _ => false | _ => true end) l.

Fixpoint ilast (l : list (nat * val)) (i : nat) : option val :=
  match l with
  | [] => None
  | (j, v) :: r => match ilast r i with Some w => Some w | None => if Nat.eqb i j then Some v else None end
  end.

Definition oval_eqb (a b : option val) : bool :=
  match a, b with Some x, Some y => val_eqb x y | None, None => true | _, _ => false end.

Definition imap_eqb (n : nat) (a b : list (nat * val)) : bool :=
  forallb (fun i => oval_eqb (ilast a i) (ilast b i)) (seq 0 n).

(** model against CPython: the reference semantics itself *)
Definition agree_python (c : xcase) (o : xobs) : bool :=
  match py_run c with
  | Err _ => match o_pytruth o with None => true | Some _ => false end
  | Ok (v, (_, l)) =>
      match o_pytruth o with
      | Some t => Bool.eqb t (truth_of v) && ilog_eqb (no_slices c l) (o_pylog o)
      | None => false
      end
  end.

(** model against the library *)
Definition agree_library (c : xcase) (o : xobs) : bool :=
  match model_outcome c with
  | XViolation ls =>
      Z.eqb (o_outcome o) 0 && lines_eqb ls (o_lines o) &&
      match rc_run c with
      | Ok (_, (_, recorded)) => imap_eqb (List.length (x_texts c)) (ilog_of c recorded) (o_recorded o)
      | Err _ => false
      end
  | XRecomputeError => Z.eqb (o_outcome o) 1
  | XNoViolation => Z.eqb (o_outcome o) 2
  | XConditionRaises _ => Z.eqb (o_outcome o) 3
  end.

(** ** Executable statements *)
Definition nodes_with_text (c : xcase) (k : string) : list nat :=
  filter (fun i => String.eqb (text_of c i) k) (seq 0 (size (x_body c))).

Definition is_inner (c : xcase) (i : nat) : bool := existsb (Nat.eqb i) (inner_nodes 0 (x_body c)).

Definition in_log (l : log) (i : nat) (v : val) : bool :=
  existsb (fun p => Nat.eqb (fst p) i && val_eqb (snd p) v) l.

(** the first falsifying assignment of a failing all(<generator>), by Python's own semantics *)
Definition all_counterexample (m : env) (e : expr) : option (list (string * val)) :=
  match e with
  | ECall _ (ECons (EComp KGen elt _ gs) ENil) _ =>
      match first_failing py_prims elt (stored_names gs []) (ev_gens py_prims gs m (remove_names (stored_names gs []) m)) with
      | Ok (Some (_, inputs)) => Some inputs
      | _ => None
      end
  | _ => None
  end.

Definition line_is_true (c : xcase) (m : env) (l : log) (pyinner rclog : list (nat * val)) (k : string) (v : val) : bool :=
  (* an argument of the call, under its own name *)
  existsb (fun p => String.eqb (fst p) k && val_eqb (snd p) v) (x_kwargs c) ||
  existsb (fun i =>
    match v with
    | VAllFail _ inputs =>
        match all_counterexample m (node c i) with
        | Some expected => lines_eqb expected inputs
        | None => false
        end
    | _ =>
        if is_inner c i
        then
          (* inside a comprehension scope: one of the values CPython computed for the node; where CPython never
             evaluated the node (an empty iteration), what the speculative visit of the part records for it - as the
             model of the re-evaluator has it - or the value of the node taken on its own (the documented limitation,
             NOTE ABOUT PLACEHOLDERS; its harmful side is D12b) *)
          if existsb (fun p => Nat.eqb (fst p) i) pyinner
          then existsb (fun p => Nat.eqb (fst p) i && val_eqb (snd p) v) pyinner
          else in_log rclog i v
               || match comp_value py_prims (node c i) m with Ok w => val_eqb w v | Err _ => false end
        else in_log l i v
    end) (nodes_with_text c k) ||
  (* the target of an assignment expression, shown with the value assigned *)
  existsb (fun i => match node c i with ENamed tg _ => String.eqb tg k && in_log l i v | _ => false end)
          (seq 0 (size (x_body c))).

Definition listed (ls : lines) (k : string) (v : val) : bool :=
  existsb (fun p => String.eqb (fst p) k && (val_eqb (snd p) v || match snd p with VAllFail _ _ => true | _ => false end)) ls.

Definition must_be_listed (c : xcase) (e : expr) (v : val) : bool :=
  match e with
  | EName id => existsb (fun t => match lookup t id with Some _ => true | None => false end) (tables c) && representable v
  | EAttr _ _ => representable v
  | ECall _ _ _ | ESub _ _ => true
  | EComp KList _ _ _ | EComp KDict _ _ _ => true
  | _ => false
  end.

Definition no_name_is_none (c : xcase) : bool :=
  forallb (fun p => match snd p with VNone => false | _ => true end) (start_env c).

(** nodes inside an f-string: the library shows the whole f-string and does not descend into it *)
Definition fstring_inner (c : xcase) : list nat := fstring_nodes (x_body c).

(** C06: every line shows Python's value; every representable argument is listed; every name,
    attribute, call, subscript and comprehension Python evaluated outside comprehension scope is
    listed.  [exempt_fstring]: do not demand lines for nodes inside f-strings (finding D21). *)
Definition spec_C06_gen (exempt_fstring : bool) (c : xcase) (o : xobs) : bool :=
  if negb (Z.eqb (o_outcome o) 0) then true else
  match py_run c with
  | Err _ => true
  | Ok (_, (m, l)) =>
      forallb (fun p => line_is_true c m l (o_pyinner o)
                                     (match rc_run c with Ok (_, (_, recorded)) => recorded | Err _ => [] end)
                                     (fst p) (snd p)) (o_lines o) &&
      forallb (fun p => negb (representable (snd p)) || line_has (o_lines o) (fst p))
              (selected_kwargs (x_kwargs c) (x_cond_params c)) &&
      (negb (no_name_is_none c) ||
       forallb (fun p => negb (must_be_listed c (node c (fst p)) (snd p))
                         || (exempt_fstring && existsb (Nat.eqb (fst p)) (fstring_inner c))
                         || listed (o_lines o) (text_of c (fst p)) (snd p)) l)
  end.
Definition spec_C06 := spec_C06_gen false.
Definition spec_C06_partial := spec_C06_gen true.

(** the class of D12b: a part of a comprehension raises when it is evaluated on its own *)
Definition speculative_failure (c : xcase) : bool :=
  match py_run c with
  | Ok (v, _) => negb (truth_of v) && match rc_run c with Err Speculative => true | _ => false end
  | Err _ => false
  end.

(** C07: a falsy condition surfaces as the violation with the true condition text, and building
    the message evaluates nothing that Python skipped (outside comprehension scope) *)
Definition spec_C07 (c : xcase) (o : xobs) : bool :=
  match py_run c with
  | Err _ => true
  | Ok (v, (_, l)) =>
      if truth_of v then Z.eqb (o_outcome o) 2 else
      Z.eqb (o_outcome o) 0 && o_text_ok o &&
      forallb (fun p => is_inner c (fst p) || existsb (fun q => Nat.eqb (fst q) (fst p)) l) (o_recorded o)
  end.

Fixpoint strictly_sorted (ks : list string) : bool :=
  match ks with
  | a :: ((b :: _) as r) => str_ltb a b && strictly_sorted r
  | _ => true
  end.

(** C20: lines sorted by key, one per key; functions and [_ARGS]/[_KWARGS] left out *)
Definition spec_C20 (c : xcase) (o : xobs) : bool :=
  if negb (Z.eqb (o_outcome o) 0) then true else
  strictly_sorted (map fst (o_lines o)) &&
  forallb (fun p =>
     (* values named by the condition or passed as arguments are never functions *)
     (representable (snd p) ||
      existsb (fun i => match node c i with ECall _ _ _ | ESub _ _ | EComp _ _ _ _ => true | _ => false end)
              (nodes_with_text c (fst p))) &&
     (negb (String.eqb (fst p) "_ARGS" || String.eqb (fst p) "_KWARGS") ||
      existsb (String.eqb (fst p)) (x_cond_params c))) (o_lines o).
