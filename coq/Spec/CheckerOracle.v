(** Executable statements of the checker properties on one observation (trace, outcome) of a
    case.  They are evaluated on the *implementation's* observation by the checks (the search
    for a failing input) and are proved of the model's observation in Proofs/CheckerOracleSound.v.
    They use only the declarative vocabulary of Spec/CheckerSpec.v. *)
From ICV Require Import Base Bind Checker CheckerCase CheckerSpec.
Open Scope string_scope.
Open Scope list_scope.

Section Oracle.
  Variable c : ccase.

  Let m := k_mode c.
  Let U := case_user c.
  Let s := k_sig c.
  Let pre := eff_pre (k_levels c).
  Let snaps := eff_snaps (k_levels c).
  Let post := eff_post (k_levels c).
  Let args := k_args c.
  Let kwargs := k_kwargs c.
  Let resolved := resolve_sig s args kwargs.
  Let st0 := k_store c.
  Let self := hd PNone args.

  Definition has_checker : bool := negb (is_nil pre && is_nil post).

  (** invariants that apply around this kind of callable *)
  Definition invs_before : list contract :=
    match k_invs c, k_kind c with
    | Some invs, KMethod | Some invs, KPropGet | Some invs, KPropSet | Some invs, KPropDel => invs
    | _, _ => []
    end.
  Definition invs_after : list contract :=
    match k_invs c, k_kind c with
    | Some invs, KMethod | Some invs, KPropGet | Some invs, KPropSet | Some invs, KPropDel
    | Some invs, KInit => invs
    | _, _ => []
    end.

  Definition inv_val_ (st : store) (i : contract) : bool + exn := snd (fst (eval_invariant U i self st)).
  Definition inv_holds_ (st : store) (i : contract) : bool :=
    match inv_val_ st i with inl true => true | _ => false end.
  Definition invs_hold_ (l : list contract) (st : store) : bool := forallb (inv_holds_ st) l.

  Definition is_ok {A B} (x : A + B) : bool := match x with inl _ => true | inr _ => false end.

  Definition contract_benign (r : role) (cf : bool) (res : dict) (st : store) (k : contract) : bool :=
    is_ok (cond_val m U r cf k res st) && is_ok (error_of U r k res st).

  Definition captured : option dict :=
    if capturing snaps post
    then match capture_old m U snaps resolved [] st0 with
         | (_, inl old, _) => Some old
         | _ => None
         end
    else Some [].

  Definition guards_ok : bool :=
    negb (has_checker && (reserved_kw kwargs || clashing_names s post args kwargs)).

  (** everything up to the body is free of exceptions raised while evaluating contracts *)
  Definition benign_to_body : bool :=
    guards_ok
    && forallb (fun i => is_ok (inv_val_ st0 i) && is_ok (error_of U RInv i [("self", self)] st0)) invs_before
    && forallb (forallb (contract_benign RPre false resolved st0)) pre
    && match captured with Some _ => true | None => false end
    && match pybind s args kwargs with Some _ => true | None => false end.

  Definition pre_ok : bool := if has_checker then pre_holds m U pre resolved st0 else true.

  Definition body_expected : bool := invs_hold_ invs_before st0 && pre_ok.

  Definition is_raise (r : pv + exn) : bool := match r with inr _ => true | inl _ => false end.

  (** the error of the first falsy conjunct of the last group *)
  Definition pre_error : option exn :=
    match last_opt pre with
    | Some g => match first_failing m U RPre false resolved st0 g with
                | Some k => match error_of U RPre k resolved st0 with inl x => Some x | inr _ => None end
                | None => None
                end
    | None => None
    end.

  (** *** C01 *)
  Definition spec_C01 (t : list event) (r : pv + exn) : bool :=
    let body := existsb is_body t in
    (* the body is entered only if the effective precondition holds *)
    implb body pre_ok
    (* otherwise: no body, no capture, an error *)
    && implb (negb pre_ok) (negb body && negb (existsb is_capture t) && is_raise r)
    (* conversely *)
    && implb (benign_to_body && body_expected) body
    (* and the error is the violated contract's *)
    && implb (benign_to_body && invs_hold_ invs_before st0 && negb pre_ok)
             (match pre_error, r with
              | Some x, inr y => exn_eqb x y
              | _, _ => false
              end).

  (** *** C02 *)
  Definition adjust (v : pv) : pv :=
    match k_kind c with KInit => self | KPropSet | KPropDel => PNone | _ => v end.

  Definition post_events_ok (t : list event) (res : dict) (stb : store) : bool :=
    forallb (fun e => match e with
                      | EvCond RPost k kw st =>
                          store_equiv st stb
                          && match find (fun p => Z.eqb (cid p) k) post with
                             | Some p => match select (cargs p) (cmandatory p) res with
                                         | Some kw' => kw_eqb kw kw'
                                         | None => false
                                         end
                             | None => false
                             end
                      | _ => true
                      end) t.

  Definition post_error (res : dict) (stb : store) : option exn :=
    match first_failing m U RPost true res stb post with
    | Some k => match error_of U RPost k res stb with inl x => Some x | inr _ => None end
    | None => None
    end.

  Definition spec_C02 (t : list event) (r : pv + exn) : bool :=
    if negb (existsb is_body t) then true else
    match u_body U args kwargs st0 with
    | (BRaise e, stb) =>
        (* the exception object reaches the caller unchanged; nothing is evaluated afterwards *)
        outcome_eqb r (inr (XObj e))
        && negb (existsb (is_cond_of RPost) t)
    | (BRet v, stb) =>
        match captured with
        | None => true
        | Some old =>
            let res := if has_checker then resolved_post s snaps post args kwargs old v else resolved in
            post_events_ok t res stb
            && (if has_checker && negb (forallb (contract_benign RPost true res stb) post) then true
                else if negb (if has_checker then posts_hold m U post res stb else true)
                then match post_error res stb, r with
                     | Some x, inr y => exn_eqb x y
                     | _, _ => false
                     end
                else if forallb (fun i => is_ok (inv_val_ stb i)) invs_after && invs_hold_ invs_after stb
                then outcome_eqb r (inl (adjust v))
                else is_raise r || negb (forallb (fun i => is_ok (inv_val_ stb i)) invs_after))
        end
    end.
End Oracle.
