(** Executable statements of the checker properties on one observation (trace, outcome) of a
    case.  They are evaluated on the *implementation's* observation by the checks (the search
    for a failing input); [spec_C11_surface] is proved of the model's observation in Proofs/CheckerSurface.v.
    They use only the declarative vocabulary of Spec/CheckerSpec.v. *)
From ICV Require Import Base Bind Checker CheckerCase CheckerSpec.
Open Scope string_scope.
Open Scope list_scope.

Section Oracle.
  Variable c : ccase.

  Let m := k_mode c.
  Let U := case_user c.
  Let s := k_sig c.
  Let pre := eff_pre (k_levels c).
  Let snaps := eff_snaps (k_levels c).
  Let post := eff_post (k_levels c).
  Let args := k_args c.
  Let kwargs := k_kwargs c.
  Let resolved := resolve_sig s args kwargs.
  Let st0 := k_store c.
  Let self := hd PNone args.

  Definition has_checker : bool := negb (is_nil pre && is_nil post).

  (** invariants that apply around this kind of callable *)
  Definition invs_before : list contract := around_invs c.
  Definition invs_after : list contract :=
    match k_invs c, k_kind c with
    | Some _, KMethod | Some _, KPropGet | Some _, KPropSet | Some _, KPropDel => around_invs c
    | Some invs, KInit => invs ++ k_invs_set c
    | _, _ => []
    end.

  Definition inv_val_ (st : store) (i : contract) : bool + exn := snd (fst (eval_invariant U i self st)).
  Definition inv_holds_ (st : store) (i : contract) : bool :=
    match inv_val_ st i with inl true => true | _ => false end.
  Definition invs_hold_ (l : list contract) (st : store) : bool := forallb (inv_holds_ st) l.

  Definition is_ok {A B} (x : A + B) : bool := match x with inl _ => true | inr _ => false end.

  Definition contract_benign (r : role) (cf : bool) (res : dict) (st : store) (k : contract) : bool :=
    is_ok (cond_val m U r cf k res st) && is_ok (error_of U r k res st).

  Definition captured : option dict :=
    if capturing snaps post
    then match capture_old m U snaps resolved [] st0 with
         | (_, inl old, _) => Some old
         | _ => None
         end
    else Some [].

  Definition guards_ok : bool :=
    negb (has_checker && (reserved_kw kwargs || clashing_names s post args kwargs)).

  (** everything up to the body is free of exceptions raised while evaluating contracts *)
  Definition benign_to_body : bool :=
    guards_ok
    && forallb (fun i => is_ok (inv_val_ st0 i) && is_ok (error_of U RInv i [("self", self)] st0)) invs_before
    && forallb (forallb (contract_benign RPre false resolved st0)) pre
    && match captured with Some _ => true | None => false end
    && match pybind s args kwargs with Some _ => true | None => false end.

  Definition pre_ok : bool := if has_checker then pre_holds m U pre resolved st0 else true.

  Definition body_expected : bool := invs_hold_ invs_before st0 && pre_ok.

  Definition is_raise (r : pv + exn) : bool := match r with inr _ => true | inl _ => false end.

  (** the error of the first falsy conjunct of the last group *)
  Definition pre_error : option exn :=
    match last_opt pre with
    | Some g => match first_failing m U RPre false resolved st0 g with
                | Some k => match error_of U RPre k resolved st0 with inl x => Some x | inr _ => None end
                | None => None
                end
    | None => None
    end.

  (** *** C01 *)
  Definition spec_C01 (t : list event) (r : pv + exn) : bool :=
    let body := existsb is_body t in
    (* the body is entered only if the effective precondition holds *)
    implb body pre_ok
    (* otherwise: no body, no capture, an error *)
    && implb (negb pre_ok) (negb body && negb (existsb is_capture t) && is_raise r)
    (* conversely *)
    && implb (benign_to_body && body_expected) body
    (* and the error is the violated contract's *)
    && implb (benign_to_body && invs_hold_ invs_before st0 && negb pre_ok)
             (match pre_error, r with
              | Some x, inr y => exn_eqb x y
              | _, _ => false
              end).

  (** *** C02 *)
  Definition adjust (v : pv) : pv :=
    match k_kind c with KInit => self | KPropSet | KPropDel => PNone | _ => v end.

  Definition post_events_ok (t : list event) (res : dict) (stb : store) : bool :=
    forallb (fun e => match e with
                      | EvCond RPost k kw st =>
                          store_equiv st stb
                          && match find (fun p => Z.eqb (cid p) k) post with
                             | Some p => match select (cargs p) (cmandatory p) res with
                                         | Some kw' => kw_eqb kw kw'
                                         | None => false
                                         end
                             | None => false
                             end
                      | _ => true
                      end) t.

  Definition post_error (res : dict) (stb : store) : option exn :=
    match first_failing m U RPost true res stb post with
    | Some k => match error_of U RPost k res stb with inl x => Some x | inr _ => None end
    | None => None
    end.

  Definition spec_C02 (t : list event) (r : pv + exn) : bool :=
    (* what the caller receives on a normal return is what the body returned: the body ran *)
    if negb (existsb is_body t) then negb (is_ok r) else
    match u_body U args kwargs st0 with
    | (BRaise e, stb) =>
        (* the exception object reaches the caller unchanged; nothing is evaluated afterwards *)
        outcome_eqb r (inr (XObj e))
        && negb (existsb (is_cond_of RPost) t)
    | (BRet v, stb) =>
        match captured with
        | None => true
        | Some old =>
            let res := if has_checker then resolved_post s snaps post args kwargs old v else resolved in
            post_events_ok t res stb
            (* when all of them hold, every effective postcondition has been evaluated *)
            && (if has_checker && forallb (contract_benign RPost true res stb) post && posts_hold m U post res stb
                then forallb (fun k => existsb (fun e => match e with
                                                         | EvCond RPost k' _ _ => Z.eqb k' (cid k)
                                                         | _ => false
                                                         end) t) post
                else true)
            && (if has_checker && negb (forallb (contract_benign RPost true res stb) post) then true
                else if negb (if has_checker then posts_hold m U post res stb else true)
                then match post_error res stb, r with
                     | Some x, inr y => exn_eqb x y
                     | _, _ => false
                     end
                else if forallb (fun i => is_ok (inv_val_ stb i)) invs_after && invs_hold_ invs_after stb
                then outcome_eqb r (inl (adjust v))
                else is_raise r || negb (forallb (fun i => is_ok (inv_val_ stb i)) invs_after))
        end
    end.

  (** *** C19 at call time: a reserved name is never silently shadowed.  A keyword argument named
      [_ARGS] / [_KWARGS], or - on a callable with postconditions - an argument bound to a parameter
      named [result] / [OLD] (positionally, by keyword or by default), makes the call fail with
      TypeError before the body runs (invariants around a method are evaluated first). *)
  Definition spec_C19_call (t : list event) (r : pv + exn) : bool :=
    if has_checker && (reserved_kw kwargs || clashing_names s post args kwargs)
       && forallb (fun i => is_ok (inv_val_ st0 i) && is_ok (error_of U RInv i [("self", self)] st0)) invs_before
       && invs_hold_ invs_before st0
    then match r with
         | inr (XLib cls _) => String.eqb cls "TypeError" && negb (existsb is_body t)
         | _ => false
         end
    else true.

  (** *** the expected outcome, declaratively, when no contract evaluation raises *)
  Definition inv_error (l : list contract) (st : store) : option exn :=
    match find (fun i => negb (inv_holds_ st i)) l with
    | Some i => match error_of U RInv i [("self", self)] st with inl x => Some x | inr _ => None end
    | None => None
    end.

  Definition invs_benign (l : list contract) (st : store) : bool :=
    forallb (fun i => is_ok (inv_val_ st i) && is_ok (error_of U RInv i [("self", self)] st)) l.

  Definition expected_outcome : option (pv + exn) :=
    if negb benign_to_body then None
    else if negb (invs_hold_ invs_before st0) then option_map inr (inv_error invs_before st0)
    else if negb pre_ok then option_map inr pre_error
    else
      match captured, u_body U args kwargs st0 with
      | None, _ => None
      | Some old, (BRaise e, _) => Some (inr (XObj e))
      | Some old, (BRet v, stb) =>
          let res := if has_checker then resolved_post s snaps post args kwargs old v else resolved in
          if has_checker && negb (forallb (contract_benign RPost true res stb) post) then None
          else if has_checker && negb (posts_hold m U post res stb) then option_map inr (post_error res stb)
          else if negb (invs_benign invs_after stb) then None
          else if negb (invs_hold_ invs_after stb) then option_map inr (inv_error invs_after stb)
          else Some (inl (adjust v))
      end.

  Definition outcome_as_expected (r : pv + exn) : bool :=
    match expected_outcome with Some e => outcome_eqb r e | None => true end.

  (** *** C16: phases, list order, at most once *)
  Definition phase_of (seen_body : bool) (e : event) : option nat :=
    match e with
    | EvCond RInv _ _ _ => Some (if seen_body then 5 else 0)
    | EvCond RPre _ _ _ => Some 1
    | EvCapture _ _ _ => Some 2
    | EvBody _ _ => Some 3
    | EvCond RPost _ _ _ => Some 4
    | EvError _ _ => None
    end.

  Fixpoint phases_ok (cur : nat) (seen_body : bool) (t : list event) : bool :=
    match t with
    | [] => true
    | e :: rest =>
        match phase_of seen_body e with
        | None => phases_ok cur seen_body rest
        | Some p =>
            Nat.leb cur p
            && (if Nat.eqb p 3 then negb seen_body else true)
            && phases_ok p (seen_body || Nat.eqb p 3) rest
        end
    end.

  (** the conditions a conjunction evaluates: the longest prefix that holds, then the first that does not *)
  Fixpoint evaluated_prefix (hold : contract -> bool) (l : list contract) : list Z * bool :=
    match l with
    | [] => ([], true)
    | k :: rest => if hold k then let (ids, ok) := evaluated_prefix hold rest in (cid k :: ids, ok)
                   else ([cid k], false)
    end.

  (** the groups tried: each up to its first falsy condition, until one group holds *)
  Fixpoint expected_pre_ids (gs : list (list contract)) : list Z :=
    match gs with
    | [] => []
    | g :: rest => let (ids, ok) := evaluated_prefix (holds m U RPre false resolved st0) g in
                   if ok then ids else ids ++ expected_pre_ids rest
    end.

  (** the violated condition is evaluated once more for its message exactly when it is a lambda and the
      library builds the message (no error given, or an exception class) *)
  Definition reeval_expected (k : contract) : bool :=
    clambda k && match cerror k with ENone | EClass _ => true | _ => false end.

  (** the precondition evaluations in full: each group tried up to its first falsy condition, that one once more
      when its message is built from it, until one group holds *)
  Fixpoint expected_pre_evals (gs : list (list contract)) : list Z :=
    match gs with
    | [] => []
    | g :: rest =>
        let (ids, ok) := evaluated_prefix (holds m U RPre false resolved st0) g in
        if ok then ids
        else ids
             ++ match find (fun k => negb (holds m U RPre false resolved st0 k)) g with
                | Some k => if reeval_expected k then [cid k] else []
                | None => []
                end
             ++ expected_pre_evals rest
    end.

  (** ids of the condition evaluations of a role, as they happened *)
  Definition cond_ids (r : role) (t : list event) : list Z :=
    flat_map (fun e => match e with EvCond r' k _ _ => if role_eqb r r' then [k] else [] | _ => [] end) t.

  Fixpoint zlist_eqb (a b : list Z) : bool :=
    match a, b with
    | [], [] => true
    | x :: r, y :: r' => Z.eqb x y && zlist_eqb r r'
    | _, _ => false
    end.

  Definition count_cond (k : Z) (t : list event) : nat :=
    List.length (filter (fun e => match e with EvCond _ k' _ _ => Z.eqb k k' | _ => false end) t).
  Definition count_error (k : Z) (t : list event) : nat :=
    List.length (filter (fun e => match e with EvError k' _ => Z.eqb k k' | _ => false end) t).

  Definition all_contracts : list contract :=
    List.concat pre ++ post ++ match k_invs c with Some l => l ++ k_invs_set c | None => [] end.

  (** on how many inheritance paths a contract reaches the callable (1 unless a diamond lists it once per path) *)
  Definition paths_of (k : contract) : nat :=
    List.length (filter (fun i => Z.eqb (cid i) (cid k)) all_contracts).

  (** the postcondition evaluations, as they happened, follow the order of the effective list (inherited before own,
      nearest decorator first): with the re-evaluation of a violated condition for its message taken off the end, they
      are a prefix of the list *)
  Fixpoint strip_reeval (l : list Z) : list Z :=
    match l with
    | [] => []
    | x :: r => match r with
                | [y] => if Z.eqb x y then [x] else [x; y]
                | _ => x :: strip_reeval r
                end
    end.
  Fixpoint is_prefix_ids (a b : list Z) : bool :=
    match a, b with
    | [], _ => true
    | x :: r, y :: r' => Z.eqb x y && is_prefix_ids r r'
    | _ :: _, [] => false
    end.
  Definition post_order_ok (t : list event) : bool :=
    is_prefix_ids (strip_reeval (cond_ids RPost t)) (map cid post).

  Definition spec_C16 (t : list event) (r : pv + exn) : bool :=
    phases_ok 0 false t
    && post_order_ok t
    (* every condition at most once per check (and inheritance path); a lambda once more for its message;
       invariants twice (before, after) *)
    && forallb (fun k => Nat.leb (count_cond (cid k) t)
                                 ((paths_of k * (if clambda k then 2 else 1))
                                  * (if existsb (fun i => Z.eqb (cid i) (cid k))
                                                (match k_invs c with Some l => l ++ k_invs_set c | None => [] end) then 2 else 1)))
               all_contracts
    (* groups in order, each up to its first falsy condition, until one holds *)
    && (if benign_to_body && invs_hold_ invs_before st0 && has_checker
        then zlist_eqb (cond_ids RPre t) (expected_pre_evals pre)
        else true)
    && outcome_as_expected r.

  (** *** C08 *)
  Definition capture_ids_ (t : list event) : list Z :=
    flat_map (fun e => match e with EvCapture sd _ _ => [sd] | _ => [] end) t.

  Fixpoint is_prefix (a b : list Z) : bool :=
    match a, b with
    | [], _ => true
    | x :: r, y :: r' => Z.eqb x y && is_prefix r r'
    | _ :: _, [] => false
    end.

  Definition capture_events_ok (t : list event) : bool :=
    forallb (fun e => match e with
                      | EvCapture sd kw st =>
                          store_equiv st st0
                          && match find (fun sn => Z.eqb (sid sn) sd) snaps with
                             | Some sn => match select (sargs sn) (sargs sn) resolved with
                                          | Some kw' => kw_eqb kw kw'
                                          | None => false
                                          end
                             | None => false
                             end
                      | _ => true
                      end) t.

  Definition spec_C08 (t : list event) (r : pv + exn) : bool :=
    let caps := capture_ids_ t in
    let expected := if has_checker && capturing snaps post then map sid snaps else [] in
    phases_ok 0 false t
    && capture_events_ok t
    (* exactly once each, in order, when the body is entered; never without postconditions; never if a precondition fails *)
    && (if existsb is_body t then zlist_eqb caps expected else is_prefix caps expected)
    && implb (negb (is_nil caps)) pre_ok
    (* postconditions see the values captured before the body, whatever the body did *)
    && (if existsb is_body t
        then match captured, u_body U args kwargs st0 with
             | Some old, (BRet v, stb) =>
                 post_events_ok t (if has_checker then resolved_post s snaps post args kwargs old v else resolved) stb
             | _, _ => true
             end
        else true).

  (** *** C05 on whole calls: whatever a condition, a capture or an error factory receives under the name of a
      value of the call is that value ([resolved]: the values the body receives, per parameter), and an error
      factory receives every value of the call that it names - with or without a default *)
  Definition kw_of_call (res : dict) (kw : dict) : bool :=
    forallb (fun kv => match dict_get res (fst kv) with Some w => pv_eqb (snd kv) w | None => true end) kw.

  (** the library's own TypeError ("the arguments of the condition have not been set", a call the function
      cannot bind, a reserved name) needs a reason that can be read off the declarations and the call:
      every parameter a contract names and the call binds is available to it, whichever contracts were
      evaluated before *)
  Definition available (is_post : bool) (a : string) : bool :=
    dict_has resolved a || (is_post && (String.eqb a "result" || (String.eqb a "OLD" && negb (is_nil snaps)))).
  Definition needs_unavailable (is_post : bool) (x : contract) : bool :=
    negb (forallb (available is_post) (cmandatory x))
    || match cerror x with
       | EFactory _ emand => negb (forallb (available is_post) emand)
       | _ => false
       end.
  Definition legit_type_error (t : list event) : bool :=
    dict_has kwargs "_ARGS" || dict_has kwargs "_KWARGS"
    || (negb (is_nil post) && (dict_has resolved "result" || dict_has resolved "OLD"))
    || match pybind s args kwargs with None => true | Some _ => false end
    || existsb (needs_unavailable false) (List.concat pre ++ invs_before ++ invs_after)
    || existsb (needs_unavailable true) post
    || existsb (fun sn => negb (forallb (dict_has resolved) (sargs sn))) snaps
    || existsb (fun e => match e with
                         | EvError k kw => match u_error U k kw with ERetOther => true | _ => false end
                         | _ => false
                         end) t.

  Definition spec_C05_call (t : list event) (r : pv + exn) : bool :=
    match r with inr (XLib cls _) => implb (String.eqb cls "TypeError") (legit_type_error t) | _ => true end &&
    forallb (fun e =>
               match e with
               | EvCond RPre _ kw _ | EvCapture _ kw _ => kw_of_call resolved kw
               | EvCond RPost k kw _ =>
                   forallb (fun kv => if String.eqb (fst kv) "result" || String.eqb (fst kv) "OLD" then true
                                      else match dict_get resolved (fst kv) with Some w => pv_eqb (snd kv) w | None => true end) kw
               | EvError k kw =>
                   match find (fun x => Z.eqb (cid x) k) (List.concat pre) with
                   | Some x => match cerror x with
                               | EFactory eargs _ =>
                                   kw_of_call resolved kw
                                   && forallb (fun a => implb (dict_has resolved a) (dict_has kw a)) eargs
                               | _ => true
                               end
                   | None => true          (* postconditions and invariants: see the body's environment below *)
                   end
               | _ => true
               end) t
    (* the body's own view agrees with [resolved] *)
    && (if kf_C05_surplus s args kwargs || kf_C05_posonly s kwargs then true   (* the recorded findings of the bind cluster *)
        else forallb (fun e => match e with
                               | EvBody env _ =>
                                   forallb (fun n => match dict_get resolved n, dict_get env n with
                                                     | Some a, Some b => pv_eqb a b
                                                     | _, _ => true
                                                     end) (map pname (named_params s))
                               | _ => true end) t)
    (* error factories of postconditions: the parameters of the function they name carry the body's values *)
    && forallb (fun e =>
                  match e with
                  | EvError k kw =>
                      match find (fun x => Z.eqb (cid x) k) post with
                      | Some x => match cerror x with
                                  | EFactory eargs _ =>
                                      forallb (fun a => if String.eqb a "result" || String.eqb a "OLD" then true
                                                        else match dict_get resolved a with
                                                             | Some w => match dict_get kw a with
                                                                         | Some v => pv_eqb v w
                                                                         | None => false
                                                                         end
                                                             | None => true
                                                             end) eargs
                                  | _ => true
                                  end
                      | None => true
                      end
                  | _ => true
                  end) t.

  (** *** C11, second sentence: an exception raised by a condition, a truth test, a capture, an error factory or the
      body is the end of the call and surfaces as that very exception (or as the library's wrapper chaining it) *)
  Definition kind_of_cond (k : Z) : ckind :=
    match find (fun x => Z.eqb (cid x) k) all_contracts with Some x => ckind_ x | None => CKPlain end.
  Definition kind_of_snap (sd : Z) : ckind :=
    match find (fun x => Z.eqb (sid x) sd) snaps with Some x => skind x | None => CKPlain end.
  (* a coroutine is only run where it is awaited: on an async callable *)
  Definition runs (kd : ckind) : bool := match kd, m with CKPlain, _ => true | _, Async => true | _, Sync => false end.

  Definition raised_at (e : event) : option Z :=
    match e with
    | EvCond _ k kw st => if runs (kind_of_cond k)
                          then match u_cond U k kw st with CRaise x | CBoolRaise x => Some x | CRet _ => None end
                          else None
    | EvCapture sd kw st => if runs (kind_of_snap sd)
                            then match u_capture U sd kw st with CapRaise x => Some x | CapRet _ => None end
                            else None
    | EvError k kw => match u_error U k kw with ERaise x => Some x | _ => None end
    | EvBody _ st => match fst (u_body U args kwargs st) with BRaise x => Some x | BRet _ => None end
    end.

  Fixpoint first_raised (t : list event) : option (Z * list event) :=
    match t with
    | [] => None
    | e :: rest => match raised_at e with Some x => Some (x, rest) | None => first_raised rest end
    end.

  Definition spec_C11_surface (t : list event) (r : pv + exn) : bool :=
    match first_raised t with
    | None => true
    | Some (x, rest) =>
        is_nil rest
        && match r with
           | inr (XObj y) => Z.eqb x y
           | inr (XLib _ (Some y)) => Z.eqb x y
           | _ => false
           end
    end.

  (** *** C03 on whole calls, as the property states it: around a call of a method or a property accessor the
      invariants declared for calls - all of them, in order, up to the first that does not hold - are evaluated
      before the body, and none that was declared for attribute assignments only *)
  Definition inv_ids_before_body (t : list event) : list Z :=
    (fix go (t : list event) : list Z :=
       match t with
       | EvCond RInv k _ _ :: rest => k :: go rest
       | EvCond _ _ _ _ :: _ | EvCapture _ _ _ :: _ | EvBody _ _ :: _ => []
       | EvError _ _ :: rest => go rest
       | [] => []
       end) t.

  Definition call_invs : list contract :=
    match k_invs c, k_kind c with
    | Some invs, KMethod | Some invs, KPropGet | Some invs, KPropSet | Some invs, KPropDel => invs
    | _, _ => []
    end.

  Definition spec_C03_call (t : list event) (r : pv + exn) : bool :=
    if negb (forallb (fun i => is_ok (inv_val_ st0 i) && is_ok (error_of U RInv i [("self", self)] st0)) call_invs) then true
    else
      let (ids, ok) := evaluated_prefix (inv_holds_ st0) call_invs in
      let expected := ids ++ (if ok then []
                              else match find (fun k => negb (inv_holds_ st0 k)) call_invs with
                                   | Some k => if reeval_expected k then [cid k] else []
                                   | None => []
                                   end) in
      zlist_eqb (inv_ids_before_body t) expected.

  (** *** after the body: a call that returns normally has evaluated every invariant that applies after it, each
      once and in order (whether or not its condition takes the instance) *)
  Definition inv_ids_after_body (t : list event) : list Z :=
    (fix skip (t : list event) : list Z :=
       match t with
       | EvBody _ _ :: rest => flat_map (fun e => match e with EvCond RInv k _ _ => [k] | _ => [] end) rest
       | _ :: rest => skip rest
       | [] => []
       end) t.

  Definition spec_C16_after (t : list event) (r : pv + exn) : bool :=
    match r with
    | inl _ => if existsb is_body t then zlist_eqb (inv_ids_after_body t) (map cid invs_after) else true
    | inr _ => true
    end.

  (** the class of the recorded finding D30 *)
  Definition kf_C03_setter_class : bool :=
    match k_kind c with KPropSet => negb (is_nil (setattr_list c)) | _ => false end.

  (** *** C09 *)
  Definition error_events_ok (t : list event) : bool :=
    forallb (fun e => match e with
                      | EvError k kw =>
                          match find (fun x => Z.eqb (cid x) k) all_contracts with
                          | Some x => match cerror x with
                                      | EFactory eargs _ => forallb (fun kv => str_in (fst kv) eargs) kw
                                                          && Nat.eqb (List.length kw) (List.length (filter (fun a => str_in a (map fst kw)) eargs))
                                      | _ => false        (* only factories are called *)
                                      end
                          | None => false
                          end
                      | _ => true
                      end) t.

  Definition spec_C09 (t : list event) (r : pv + exn) : bool :=
    error_events_ok t
    && forallb (fun k => Nat.leb (count_error (cid k) t)
                                 (paths_of k * (if existsb (fun i => Z.eqb (cid i) (cid k))
                                                           (match k_invs c with Some l => l ++ k_invs_set c | None => [] end) then 2 else 1)))
               all_contracts
    && outcome_as_expected r.

  (** *** C14 (the run-time part): satisfied contracts are transparent *)
  Definition spec_C14 (t : list event) (r : pv + exn) : bool :=
    (* the body receives exactly the objects Python binds for the call *)
    forallb (fun e => match e with
                      | EvBody env st => match pybind s args kwargs with
                                         | Some env' => kw_eqb env env' && store_equiv st st0
                                         | None => false
                                         end
                      | _ => true
                      end) t
    && outcome_as_expected r.
End Oracle.
