(** Declarative vocabulary for the checker properties (C01, C02, C08, C09, C16):
    what it means for a condition / a group / the effective precondition to hold, which
    contract is "the first falsy one", what the error of a contract is.  No loops, no breaks. *)
From ICV Require Import Base Bind Checker.
Open Scope string_scope.
Open Scope list_scope.

Section Spec.
  Variables (m : mode) (U : user).

  (** The value of one condition for a call: its truth value, or the exception evaluating it
      raises (user exception, missing argument, coroutine on a sync callable ...). *)
  Definition cond_val (r : role) (cf : bool) (c : contract) (resolved : dict) (st : store) : bool + exn :=
    snd (fst (eval_condition m U r cf c resolved st)).

  Definition holds (r : role) (cf : bool) (resolved : dict) (st : store) (c : contract) : bool :=
    match cond_val r cf c resolved st with inl true => true | _ => false end.

  (** own conditions conjoined; inherited groups as alternatives; no preconditions = accept all *)
  Definition group_holds (resolved : dict) (st : store) (g : list contract) : bool :=
    forallb (holds RPre false resolved st) g.
  Definition pre_holds (gs : list (list contract)) (resolved : dict) (st : store) : bool :=
    is_nil gs || existsb (group_holds resolved st) gs.

  Definition posts_hold (ps : list contract) (resolved : dict) (st : store) : bool :=
    forallb (holds RPost true resolved st) ps.

  (** the first condition of a list that does not hold *)
  Definition first_failing (r : role) (cf : bool) (resolved : dict) (st : store) (l : list contract)
    : option contract :=
    find (fun c => negb (holds r cf resolved st c)) l.

  (** what [_create_violation_error] gives for a contract (error value or exception while creating it) *)
  Definition error_of (r : role) (c : contract) (resolved : dict) (st : store) : exn + exn :=
    snd (fst (create_violation_error U r c resolved st)).
End Spec.

(** ** The guards and argument dictionaries of the checker wrapper *)
Definition reserved_kw (kwargs : dict) : bool := dict_has kwargs "_ARGS" || dict_has kwargs "_KWARGS".
Definition clashing_names (s : sig) (post : list contract) (args : list pv) (kwargs : dict) : bool :=
  negb (is_nil post)
  && (dict_has (resolve_sig s args kwargs) "result" || dict_has (resolve_sig s args kwargs) "OLD").
(** snapshots are captured only if there are postconditions and snapshots *)
Definition capturing (snaps : list snapshot) (post : list contract) : bool :=
  negb (is_nil post) && negb (is_nil snaps).
(** what postconditions see: the call's arguments, [OLD] (if captured) and [result] *)
Definition resolved_old (s : sig) (snaps : list snapshot) (post : list contract) (args : list pv)
           (kwargs : dict) (old : dict) : dict :=
  if capturing snaps post then dict_set (resolve_sig s args kwargs) "OLD" (PDict old)
  else resolve_sig s args kwargs.
Definition resolved_post (s : sig) (snaps : list snapshot) (post : list contract) (args : list pv)
           (kwargs : dict) (old : dict) (v : pv) : dict :=
  dict_set (resolved_old s snaps post args kwargs old) "result" v.

Fixpoint last_opt {A} (l : list A) : option A :=
  match l with
  | [] => None
  | [x] => Some x
  | _ :: r => last_opt r
  end.

Definition is_body (e : event) : bool := match e with EvBody _ _ => true | _ => false end.
Definition is_capture (e : event) : bool := match e with EvCapture _ _ _ => true | _ => false end.
Definition is_cond_of (r : role) (e : event) : bool :=
  match e with EvCond r' _ _ _ => role_eqb r r' | _ => false end.
Definition is_error (e : event) : bool := match e with EvError _ _ => true | _ => false end.
