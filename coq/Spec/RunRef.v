(** Reference semantics for C10: no context variable, no marker.  The interpreter carries the
    stack of open frames; each frame says whose it is (a function or an instance) and whether it
    is currently *evaluating contracts* (preconditions, snapshots, postconditions of that function;
    invariants, constructor or public method of that instance) or running a function body.
    The rule of the property, literally: a call is run bare iff some open frame of the same
    function / instance is evaluating contracts; every other call is fully checked. *)
From Coq Require Import List ZArith Bool Arith Lia.
From ICV Require Import Run.
Import ListNotations.

Definition frame := (key * bool)%type.      (* (owner, evaluating contracts?) *)
Definition in_contract (stack : list frame) (k : key) : bool :=
  existsb (fun fr => key_eqb (fst fr) k && snd fr) stack.

Definition R (A : Type) := (list event * outcome A)%type.
Definition rret {A} (a : A) : R A := ([], ORet a).
Definition rraise {A} (x : exn) : R A := ([EvRaise x], OExn x).
Definition rbind {A B} (m : R A) (f : A -> R B) : R B :=
  match m with
  | (t, ORet a) => match f a with (t', r) => (t ++ t', r) end
  | (t, OExn x) => (t, OExn x)
  end.
Definition remit {A} (ev : event) (m : R A) : R A := (ev :: fst m, snd m).

Section Ref.
  Variable P : program.
  Variable plan : nat -> option Z.

  Fixpoint ref_actions (call : target -> R bool) (acts : list action) (v : verdict) : R bool :=
    match acts with
    | [] => match v with VRet b => rret b | VRaise e => rraise (EUser e) end
    | ACall t :: rest => rbind (call t) (fun _ => ref_actions call rest v)
    | AAwait pt :: rest =>
        match plan pt with
        | None => ref_actions call rest v
        | Some e => rraise (EUser e)
        end
    end.

  Fixpoint ref_conj (run : script -> R bool) (mk : nat -> site) (i : nat) (l : list script) : R unit :=
    match l with
    | [] => rret tt
    | sc :: rest =>
        remit (EvSite (mk i))
              (rbind (run sc) (fun b => if b then ref_conj run mk (S i) rest else rraise (EViol (mk i))))
    end.

  Fixpoint ref_all (run : script -> R bool) (mk : nat -> site) (i : nat) (l : list script) : R unit :=
    match l with
    | [] => rret tt
    | sc :: rest => remit (EvSite (mk i)) (rbind (run sc) (fun _ => ref_all run mk (S i) rest))
    end.

  Fixpoint ref_group (run : script -> R bool) (f g i : nat) (l : list script) : R (option site) :=
    match l with
    | [] => rret None
    | sc :: rest =>
        remit (EvSite (SPre f g i))
              (rbind (run sc) (fun b => if b then ref_group run f g (S i) rest
                                        else rret (Some (SPre f g i))))
    end.

  Fixpoint ref_groups (run : script -> R bool) (f g : nat) (gs : list (list script)) : R unit :=
    match gs with
    | [] => rret tt
    | grp :: rest =>
        rbind (ref_group run f g 0 grp)
              (fun v => match v with
                        | None => rret tt
                        | Some st => match rest with [] => rraise (EViol st) | _ :: _ => ref_groups run f (S g) rest end
                        end)
    end.

  Fixpoint ref_exec (fuel : nat) (stack : list frame) (t : target) : R bool :=
    match fuel with
    | 0 => rraise EFuel
    | S fuel' =>
        let run (st : list frame) (sc : script) : R bool :=
            ref_actions (ref_exec fuel' st) (fst sc) (snd sc) in
        match t with
        | TFn f =>
            match get_fn P f with
            | None => rraise EFuel
            | Some fd =>
                if in_contract stack (KF f)
                then (* re-entrant: bare *)
                  remit (EvBare t) (remit (EvSite (SBody f)) (run ((KF f, false) :: stack) (fn_body fd)))
                else
                  let contracts := (KF f, true) :: stack in
                  let body := (KF f, false) :: stack in
                  rbind (ref_groups (run contracts) f 0 (fn_pre fd)) (fun _ =>
                  rbind (match fn_post fd with
                         | [] => rret tt
                         | _ :: _ => ref_all (run contracts) (SCap f) 0 (fn_snaps fd)
                         end) (fun _ =>
                  remit (EvSite (SBody f))
                        (rbind (run body (fn_body fd)) (fun r =>
                         rbind (ref_conj (run contracts) (SPost f) 0 (fn_post fd)) (fun _ => rret r)))))
            end
        | TMeth o m =>
            match class_of P o with
            | None => rraise EFuel
            | Some cd =>
                match nth_error (cl_meths cd) m with
                | None => rraise EFuel
                | Some mbody =>
                    if in_contract stack (KO o)
                    then remit (EvBare t) (remit (EvSite (SMeth o m)) (run ((KO o, false) :: stack) mbody))
                    else
                      let st := (KO o, true) :: stack in     (* the whole public call suspends o's checks *)
                      rbind (ref_conj (run st) (SInv o) 0 (cl_invs cd)) (fun _ =>
                      remit (EvSite (SMeth o m))
                            (rbind (run st mbody) (fun r =>
                             rbind (ref_conj (run st) (SInv o) 0 (cl_invs cd)) (fun _ => rret r))))
                end
            end
        | TInit o =>
            match class_of P o with
            | None => rraise EFuel
            | Some cd =>
                if in_contract stack (KO o)
                then remit (EvBare t) (remit (EvSite (SInitBody o)) (run ((KO o, false) :: stack) (cl_init cd)))
                else
                  let st := (KO o, true) :: stack in         (* under construction *)
                  remit (EvSite (SInitBody o))
                        (rbind (run st (cl_init cd)) (fun r =>
                         rbind (ref_conj (run st) (SInv o) 0 (cl_invs cd)) (fun _ => rret r)))
            end
        | TNew o =>
            (* creation through __new__: no frame - nothing is suspended while the instance is made and
               its invariants are evaluated *)
            match class_of P o with
            | None => rraise EFuel
            | Some cd =>
                remit (EvSite (SInitBody o))
                      (rbind (run stack (cl_init cd)) (fun r =>
                       rbind (ref_conj (run stack) (SInv o) 0 (cl_invs cd)) (fun _ => rret r)))
            end
        end
    end.
End Ref.
