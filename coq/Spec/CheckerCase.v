(** Cases of the checker cluster (C01, C02, C08, C09, C13, C14, C16): a finite description of
    one decorated callable, one call and the user code's behaviour; [run_case] is the model's
    observation, the [*_eqb] functions compare it with the implementation's. *)
From ICV Require Import Base Bind Checker.
Open Scope string_scope.
Open Scope list_scope.

Inductive kind := KFunction | KMethod | KStatic | KClassM | KPropGet | KPropSet | KPropDel | KInit | KNew.

(** Contracts declared on one class of a single-inheritance chain (level 0 = root). *)
Record level := { l_pre : list contract; l_snaps : list snapshot; l_post : list contract }.

Inductive cap_spec := CSState (arg : string) | CSConst (n : Z) | CSRaise (e : Z).

Record tables := {
  t_cond : list (Z * (cond_result * cond_result));   (* result before / after the body ran *)
  t_capture : list (Z * cap_spec);
  t_error : list (Z * err_result);
  t_body : body_result;
  t_mutate : list (Z * Z) }.

Record ccase := {
  k_kind : kind;
  k_mode : mode;
  k_sig : sig;                     (* including the receiver (self / cls) *)
  k_levels : list level;
  k_invs : option (list contract); (* invariants of the class that are checked around calls (check_on CALL / ALL) *)
  k_invs_all : list Z;             (* those of [k_invs] declared for calls and attribute assignments (ALL) *)
  k_invs_set : list contract;      (* further invariants, declared after those, for attribute assignments only (SETATTR):
                                      evaluated after the constructor, never around a call *)
  k_args : list pv;                (* including the receiver *)
  k_kwargs : dict;
  k_tables : tables;
  k_store : store }.

(** ** Stores are kept sorted by object tag. *)
Fixpoint store_get (o : Z) (st : store) : Z :=
  match st with
  | [] => 0%Z
  | (k, v) :: r => if Z.eqb k o then v else store_get o r
  end.

Fixpoint store_set (o v : Z) (st : store) : store :=
  match st with
  | [] => [(o, v)]
  | (k, w) :: r => if Z.eqb k o then (k, v) :: r
                   else if Z.ltb o k then (o, v) :: (k, w) :: r
                   else (k, w) :: store_set o v r
  end.

Definition store_set_all (kvs : list (Z * Z)) (st : store) : store :=
  fold_left (fun st kv => store_set (fst kv) (snd kv) st) kvs st.

Fixpoint zlookup {A} (k : Z) (l : list (Z * A)) : option A :=
  match l with
  | [] => None
  | (k', v) :: r => if Z.eqb k' k then Some v else zlookup k r
  end.

(** ** The user code of a case, played from its tables. Cell 0 of the store records that the
    body ran, so that a condition can differ before and after the body and yet be a function of
    the store. *)
Definition user_of (t : tables) : user :=
  {| u_cond := fun cid _ st =>
       match zlookup cid (t_cond t) with
       | Some (rb, ra) => if Z.eqb (store_get 0 st) 0 then rb else ra
       | None => CRet true
       end;
     u_capture := fun sid kw st =>
       match zlookup sid (t_capture t) with
       | Some (CSState a) => match dict_get kw a with
                             | Some (PObj o) => CapRet (PInt (store_get o st))
                             | _ => CapRet (PInt (-1))
                             end
       | Some (CSConst n) => CapRet (PInt n)
       | Some (CSRaise e) => CapRaise e
       | None => CapRet PNone
       end;
     u_error := fun cid _ =>
       match zlookup cid (t_error t) with Some r => r | None => ERetOther end;
     u_body := fun _ _ st => (t_body t, store_set 0 1 (store_set_all (t_mutate t) st)) |}.

(** ** Effective contract lists of the most derived class of a chain
    (the general class-table elaboration is Model/Elab.v). *)
Definition eff_pre (ls : list level) : list (list contract) :=
  filter (fun g => negb (is_nil g)) (map l_pre ls).
Definition eff_snaps (ls : list level) : list snapshot := flat_map l_snaps ls.
Definition eff_post (ls : list level) : list contract := flat_map l_post ls.

Definition case_user (c : ccase) : user := user_of (k_tables c).

(** [__invariants_on_setattr__]: when it is not empty the class has a checking [__setattr__] *)
Definition setattr_list (c : ccase) : list contract :=
  match k_invs c with
  | Some invs => filter (fun i => existsb (Z.eqb (cid i)) (k_invs_all c)) invs ++ k_invs_set c
  | None => []
  end.

(** the invariants evaluated around a call of this kind.  An assignment to a property in a class with a checking
    [__setattr__] runs the property's setter *inside* that wrapper: the instance is marked as being checked, the
    setter's own invariant checks are skipped, and what is evaluated is the attribute-assignment list (D30). *)
Definition around_invs (c : ccase) : list contract :=
  match k_invs c, k_kind c with
  | Some invs, KPropSet => if is_nil (setattr_list c) then invs else setattr_list c
  | Some invs, KMethod | Some invs, KPropGet | Some invs, KPropDel => invs
  | _, _ => []
  end.

Definition case_M (c : ccase) : M pv :=
  let U := case_user c in
  let inner :=
      (* no contract anywhere on the chain: there is no checker, the callable is the bare function *)
      if is_nil (eff_pre (k_levels c)) && is_nil (eff_post (k_levels c))
      then run_body U (k_sig c) (k_args c) (k_kwargs c)
      else checker_call (k_mode c) U (k_sig c) (eff_pre (k_levels c)) (eff_snaps (k_levels c))
                        (eff_post (k_levels c)) (k_args c) (k_kwargs c) in
  let self := hd PNone (k_args c) in
  match k_invs c, k_kind c with
  | Some _, KMethod | Some _, KPropGet | Some _, KPropSet | Some _, KPropDel =>
      method_call U (around_invs c) self inner
  | Some invs, KInit => init_call U (invs ++ k_invs_set c) self inner
  | _, _ => inner
  end.

Definition run_case (c : ccase) : list event * (pv + exn) :=
  let '(t, r) := run_M (case_M c) (k_store c) in
  (t, match r, k_kind c with
      | inl _, KInit => inl (hd PNone (k_args c))    (* K(...) evaluates to the instance *)
      | inl _, KPropSet | inl _, KPropDel => inl PNone
      | _, _ => r
      end).

(** ** Comparing observations. *)
Definition opt_pv_eqb (a b : option pv) : bool :=
  match a, b with Some x, Some y => pv_eqb x y | None, None => true | _, _ => false end.

(** keyword dictionaries are compared regardless of order *)
Definition kw_eqb (a b : dict) : bool :=
  Nat.eqb (List.length a) (List.length b)
  && forallb (fun kv => opt_pv_eqb (dict_get b (fst kv)) (Some (snd kv))) a.

Fixpoint store_eqb (a b : store) : bool :=
  match a, b with
  | [], [] => true
  | (k, v) :: r, (k', v') :: r' => Z.eqb k k' && Z.eqb v v' && store_eqb r r'
  | _, _ => false
  end.

(** the store with default (zero) cells dropped *)
Definition store_norm (st : store) : store := filter (fun kv => negb (Z.eqb (snd kv) 0)) st.
Definition store_equiv (a b : store) : bool := store_eqb (store_norm a) (store_norm b).

Definition event_eqb (a b : event) : bool :=
  match a, b with
  | EvCond r c kw st, EvCond r' c' kw' st' => role_eqb r r' && Z.eqb c c' && kw_eqb kw kw' && store_equiv st st'
  | EvCapture s kw st, EvCapture s' kw' st' => Z.eqb s s' && kw_eqb kw kw' && store_equiv st st'
  | EvError c kw, EvError c' kw' => Z.eqb c c' && kw_eqb kw kw'
  | EvBody env st, EvBody env' st' => kw_eqb env env' && store_equiv st st'
  | _, _ => false
  end.

Fixpoint trace_eqb (a b : list event) : bool :=
  match a, b with
  | [], [] => true
  | x :: r, y :: r' => event_eqb x y && trace_eqb r r'
  | _, _ => false
  end.

Definition opt_z_eqb (a b : option Z) : bool :=
  match a, b with Some x, Some y => Z.eqb x y | None, None => true | _, _ => false end.

Definition exn_eqb (a b : exn) : bool :=
  match a, b with
  | XViolation c, XViolation c' => Z.eqb c c'
  | XClass k c, XClass k' c' => Z.eqb k k' && Z.eqb c c'
  | XObj t, XObj t' => Z.eqb t t'
  | XLib s c, XLib s' c' => String.eqb s s' && opt_z_eqb c c'
  | _, _ => false
  end.

Definition outcome_eqb (a b : pv + exn) : bool :=
  match a, b with
  | inl v, inl v' => pv_eqb v v'
  | inr x, inr x' => exn_eqb x x'
  | _, _ => false
  end.

Definition obs_eqb (a b : list event * (pv + exn)) : bool :=
  trace_eqb (fst a) (fst b) && outcome_eqb (snd a) (snd b).
