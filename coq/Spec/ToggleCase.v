(** * Cases for C15: what one (mode, ICONTRACT_SLOW, decorator, enabled argument) row must show. *)
From Coq Require Import List String Bool Arith.
From ICV Require Import Toggle.
Import ListNotations.

Inductive dkind := KRequire | KEnsure | KSnapshot | KInvariant.

(** observation of one row in a subprocess of that configuration *)
Record tobs := {
  t_identical : bool;   (* decorated is original *)
  t_vars_same : bool;   (* vars(original) unchanged (lists and dicts by content) *)
  t_calls : nat;        (* calls of the condition / capture over one satisfying and one violating call *)
  t_good_ret : bool;    (* the satisfying call returned *)
  t_bad_ret : bool;     (* the violating call returned *)
  t_bad_violation : bool (* the violating call raised ViolationError *)
}.

Definition absent (o : tobs) : bool :=
  t_identical o && t_vars_same o && Nat.eqb (t_calls o) 0 && t_good_ret o && t_bad_ret o.

Definition enforced (k : dkind) (o : tobs) : bool :=
  negb (Nat.eqb (t_calls o) 0) && t_good_ret o &&
  match k with KSnapshot => t_bad_ret o | _ => t_bad_violation o && negb (t_bad_ret o) end.

(** the executable statement of the first half of C15 for one row *)
Definition spec_C15 (m : pymode) (e : slow_env) (a : enabled_arg) (k : dkind) (o : tobs) : bool :=
  if enabled_spec m e a then enforced k o else absent o.

(** what the interpreter itself must report *)
Definition flags_ok (m : pymode) (e : slow_env) (debug slow : bool) : bool :=
  Bool.eqb debug (debug_of m) && Bool.eqb slow (slow_spec m e).
