(** Executable statements of the definition-cluster properties on an observed history
    (evaluated on the implementation's observation by the checks). The effective contracts are
    computed here *from the declarations* along the method resolution order - never from checker
    lists. *)
From ICV Require Import Base Bind Checker Elab ElabCase.
Open Scope string_scope.
Open Scope list_scope.

(** ** C17: a definition leaves everything defined before exactly as it was *)
Fixpoint is_prefix_by {A} (eqb : A -> A -> bool) (a b : list A) : bool :=
  match a, b with
  | [], _ => true
  | x :: r, y :: r' => eqb x y && is_prefix_by eqb r r'
  | _ :: _, [] => false
  end.

Definition frame_ok (prev cur : wview) : bool :=
  is_prefix_by fview_eqb (wv_funcs prev) (wv_funcs cur)
  && is_prefix_by cview_eqb (wv_classes prev) (wv_classes cur)
  && is_prefix_by Nat.eqb (wv_registered prev) (wv_registered cur).

Fixpoint frames_ok (prev : wview) (h : list (option string * wview)) : bool :=
  match h with
  | [] => true
  | (_, v) :: r => frame_ok prev v && frames_ok v r
  end.

Definition empty_view : wview := {| wv_funcs := []; wv_classes := []; wv_registered := [] |}.

(** classes whose effects on earlier classes the library documents as undefined:
    a subclass given invariants without DBC while an ancestor has invariants *)
Definition has_enabled_inv (d : cdecl) : bool := existsb id_enabled (cd_invs d).

(** the declarations of the class statements of a history; a later [K.name = decorator(K.name)] counts as one more
    decorator on that member of that class *)
Definition redecorate_decl (d : cdecl) (name : string) (dc : deco) : cdecl :=
  {| cd_bases := cd_bases d; cd_dbc := cd_dbc d;
     cd_members := map (fun m => if String.eqb (md_name m) name
                                    && match md_kind m with MPlain => true | _ => false end
                                 then {| md_name := md_name m; md_kind := md_kind m; md_async := md_async m;
                                         md_sig := md_sig m; md_decos := md_decos m ++ [dc];
                                         md_inherit := md_inherit m |}
                                 else m) (cd_members d);
     cd_invs := cd_invs d |}.

Fixpoint update_nth {A} (l : list A) (i : nat) (f : A -> A) : list A :=
  match l, i with
  | [], _ => []
  | x :: r, 0 => f x :: r
  | x :: r, S j => x :: update_nth r j f
  end.

Fixpoint class_decls_acc (ops : list defop) (errs : list (option string)) (acc : list cdecl) : list cdecl :=
  match ops with
  | [] => acc
  | DefClass d :: r => class_decls_acc r (tl errs) (acc ++ [d])
  | DefFunction _ :: r => class_decls_acc r (tl errs) acc
  | DefRedecorate k name dc :: r =>
      class_decls_acc r (tl errs)
                      (match errs with
                       | Some _ :: _ => acc           (* the decoration raised: nothing was added *)
                       | _ => update_nth acc k (fun d => redecorate_decl d name dc)
                       end)
  end.
Definition class_decls_ (ops : list defop) : list cdecl := class_decls_acc ops [] [].
(** with the outcomes of the definitions: a decoration that raised adds nothing *)
Definition class_decls_h (ops : list defop) (errs : list (option string)) : list cdecl := class_decls_acc ops errs [].

(** the hierarchy as the *observed* outcomes give it: a class statement that raised leaves a dead slot, one
    that did not has its bases linearised.  The oracles below read only liveness, the resolution order and
    "created through the metaclass" from their world argument; on an observed history they are given this
    world, so that a class statement which the model rejects but the implementation accepted is judged too. *)
Definition add_class (w : world) (c : cobj) : world :=
  {| w_heap := w_heap w; w_funcs := w_funcs w; w_classes := w_classes w ++ [c];
     w_registered := w_registered w; w_module := w_module w |}.
Fixpoint skeleton_world_from (w : world) (ops : list defop) (errs : list (option string)) : world :=
  match ops with
  | [] => w
  | DefClass d :: r =>
      let k := List.length (w_classes w) in
      let meta := cd_dbc d || existsb (fun b => match get_class w b with Some c => co_meta c | None => false end) (cd_bases d) in
      skeleton_world_from
        (add_class w (match hd None errs, forallb (is_live w) (cd_bases d), compute_mro w k (cd_bases d) with
                      | None, true, Some mro =>
                          {| co_name := k; co_bases := cd_bases d; co_mro := mro; co_meta := meta; co_ns := [];
                             co_inv := None; co_inv_call := None; co_inv_set := None; co_last_check_on := None |}
                      | _, _, _ => dead_class k
                      end))
        r (tl errs)
  | _ :: r => skeleton_world_from w r (tl errs)
  end.
Definition skeleton_world (ops : list defop) (errs : list (option string)) : world :=
  skeleton_world_from empty_world ops errs.

(** the property speaks of classes on the contract-inheriting base: a history in which a class that is
    *not* created through DBCMeta is given invariants although an ancestor has invariants is outside
    its scope (the documentation calls that undefined) *)
Definition outside_C17 (c : ecase) (wm : world) : bool :=
  let decls := class_decls_ (e_ops c) in
  existsb (fun kd =>
             let k := fst kd in
             has_enabled_inv (snd kd)
             && match get_class wm k with
                | Some co => negb (co_meta co)
                             && existsb (fun j => negb (Nat.eqb j k)
                                                  && match nth_error decls j with
                                                     | Some dj => has_enabled_inv dj
                                                     | None => false
                                                     end) (co_mro co)
                | None => false
                end)
          (combine (seq 0 (List.length decls)) decls).

(** a later decoration of a member of class [k] changes [k] and the classes below it, and nothing else *)
Definition blank_class : cview :=
  {| cv_members := []; cv_invs := []; cv_invs_call := []; cv_invs_set := []; cv_owners := [] |}.
Definition blank_below (wm : world) (k : nat) (v : wview) : wview :=
  {| wv_funcs := wv_funcs v;
     wv_classes := map (fun jc => if nat_in k (mro_of wm (fst jc)) then blank_class else snd jc)
                       (combine (seq 0 (List.length (wv_classes v))) (wv_classes v));
     wv_registered := wv_registered v |}.

Fixpoint frames_ok_ops (wm : world) (prev : wview) (ops : list defop) (h : list (option string * wview)) : bool :=
  match ops, h with
  | op :: orest, (_, v) :: r =>
      (match op with
       | DefRedecorate k _ _ => frame_ok (blank_below wm k prev) (blank_below wm k v)
       | _ => frame_ok prev v
       end) && frames_ok_ops wm v orest r
  | _, _ => true
  end.

Definition spec_C17 (c : ecase) (wm : world) (h : list (option string * wview)) : bool :=
  outside_C17 c wm || frames_ok_ops wm empty_view (e_ops c) h.

(** the hypothesis of the frame theorem for class statements ([OwnLists] in Proofs/ElabClassFrame.v),
    evaluated on a world: every class created through the meta-class shows only lists of its own *)
Definition own_lists_ok (w : world) (k : nat) : bool :=
  forallb (fun which =>
             match class_inv w k which with
             | None => true
             | Some r => match get_class w k with
                         | Some c => match own_inv c which with Some r' => Nat.eqb r r' | None => false end
                         | None => false
                         end
             end) [LInv; LCall; LSet].
Definition own_lists_everywhere (w : world) : bool :=
  forallb (fun k => match get_class w k with
                    | Some c => negb (co_meta c) || is_nil (co_mro c) || own_lists_ok w k
                    | None => true
                    end) (seq 0 (List.length (w_classes w))).

(** ** declarations of a history, per class index (a failed class statement keeps its slot) *)
Definition class_decls (ops : list defop) : list cdecl := class_decls_acc ops [] [].

Definition acc_matches (acc k : mkind) : bool :=
  match acc, k with
  | MGet, MGet | MSet, MSet | MDel, MDel => true
  | (MPlain | MStatic | MClassM), (MPlain | MStatic | MClassM) => true
  | _, _ => false
  end.

Definition own_member (d : cdecl) (name : string) (acc : mkind) : option mdecl :=
  find (fun m => String.eqb (md_name m) name && acc_matches acc (md_kind m)) (cd_members d).

Definition own_pre (m : mdecl) : list Z :=
  flat_map (fun d => match d with DRequire c true => [cid c] | _ => [] end) (md_decos m).
Definition own_post (m : mdecl) : list Z :=
  flat_map (fun d => match d with DEnsure c true => [cid c] | _ => [] end) (md_decos m).
Definition own_snaps (m : mdecl) : list Z :=
  flat_map (fun d => match d with DSnapshot s true => [sid s] | _ => [] end) (md_decos m).

Section Decl.
  Variables (decls : list cdecl) (mro_of_class : nat -> list nat).

  Definition decl_of (k : nat) : option cdecl := nth_error decls k.

  (** classes on the resolution order of [k] that define [name] themselves *)
  Definition definers (k : nat) (name : string) (acc : mkind) : list (nat * mdecl) :=
    flat_map (fun c => match decl_of c with
                       | Some d => match own_member d name acc with Some m => [(c, m)] | None => [] end
                       | None => []
                       end) (mro_of_class k).

  Definition declares_pre_above (c : nat) (name : string) (acc : mkind) : bool :=
    existsb (fun cm => negb (is_nil (own_pre (snd cm)))) (definers c name acc).

  (** an ancestor-or-self that provides the member with no precondition at all *)
  Definition accept_all (k : nat) (name : string) (acc : mkind) : bool :=
    existsb (fun cm => negb (declares_pre_above (fst cm) name acc)) (definers k name acc)
    || (str_in name object_slots && negb (is_ctor name) && negb (declares_pre_above k name acc)).

  (** the same, when the classes [hidden] are not seen *)
  Definition accept_all_but (hidden : list nat) (k : nat) (name : string) (acc : mkind) : bool :=
    existsb (fun cm => negb (nat_in (fst cm) hidden) && negb (declares_pre_above (fst cm) name acc)) (definers k name acc)
    || (str_in name object_slots && negb (is_ctor name) && negb (declares_pre_above k name acc)).

  Definition declared_groups (k : nat) (name : string) (acc : mkind) : list (list Z) :=
    filter (fun g => negb (is_nil g)) (map (fun cm => own_pre (snd cm)) (definers k name acc)).
  Definition declared_posts (k : nat) (name : string) (acc : mkind) : list Z :=
    flat_map (fun cm => own_post (snd cm)) (definers k name acc).
  Definition declared_snaps (k : nat) (name : string) (acc : mkind) : list Z :=
    flat_map (fun cm => own_snaps (snd cm)) (definers k name acc).
End Decl.

Fixpoint zl_eqb (a b : list Z) : bool :=
  match a, b with [], [] => true | x :: r, y :: r' => Z.eqb x y && zl_eqb r r' | _, _ => false end.
Definition zmem (x : Z) (l : list Z) : bool := existsb (Z.eqb x) l.
Definition zset_eqb (a b : list Z) : bool := forallb (fun x => zmem x b) a && forallb (fun x => zmem x a) b.
Definition gmem (g : list Z) (l : list (list Z)) : bool := existsb (zl_eqb g) l.
Definition gset_eqb (a b : list (list Z)) : bool := forallb (fun g => gmem g b) a && forallb (fun g => gmem g a) b.

(** the first class on the MRO of [k] that defines the member: its effective contracts are what [k] shows *)
Definition provider (decls : list cdecl) (mro : nat -> list nat) (k : nat) (name : string) (acc : mkind) : option nat :=
  match definers decls mro k name acc with (c, _) :: _ => Some c | [] => None end.

Inductive c04_verdict := V_ok | V_known (what : nat) | V_bad.

(** D23: a class on the resolution order re-defines the property without this accessor (a new
    property object, no [@Base.p.<accessor>]): the library looks the accessor up on the direct bases
    only, finds none there and does not reach the contracts declared further up. *)
Definition drops_accessor (d : cdecl) (name : string) (acc : mkind) : bool :=
  match acc with
  | MGet | MSet | MDel =>
      existsb (fun m => String.eqb (md_name m) name && match md_inherit m with None => true | Some _ => false end
                        && match md_kind m with MGet | MSet | MDel => true | _ => false end) (cd_members d)
      && negb (existsb (fun m => String.eqb (md_name m) name && acc_matches acc (md_kind m)) (cd_members d))
  | _ => false
  end.

(** D23, second form: a class with several bases re-defines the property on one base's property
    ([@Base.p.setter]) and takes this accessor over from that base as the very function object: what the
    other bases declare for the accessor is not applied to it (the repair of D22 leaves the shared object alone). *)
Definition takes_by_identity (d : cdecl) (name : string) (acc : mkind) : bool :=
  match acc with
  | MGet | MSet | MDel =>
      Nat.ltb 1 (List.length (cd_bases d))
      && existsb (fun m => String.eqb (md_name m) name && match md_inherit m with Some _ => true | None => false end) (cd_members d)
      && negb (existsb (fun m => String.eqb (md_name m) name && match md_inherit m with None => true | Some _ => false end) (cd_members d))
      && negb (existsb (fun m => String.eqb (md_name m) name && acc_matches acc (md_kind m)) (cd_members d))
  | _ => false
  end.

(** the ancestors of the first class on the resolution order that drops the accessor: what they declare for it is
    reachable through that class only, and lost there (what other bases declare is still collected) *)
Fixpoint after_gap (decls : list cdecl) (mro_of_class : nat -> list nat) (name : string) (acc : mkind) (mro : list nat)
  : list nat :=
  match mro with
  | [] => []
  | c :: rest => match nth_error decls c with
                 | Some d => if drops_accessor d name acc then tl (mro_of_class c)
                             else after_gap decls mro_of_class name acc rest
                 | None => after_gap decls mro_of_class name acc rest
                 end
  end.

Definition above_gap_ids (decls : list cdecl) (mro : nat -> list nat) (p : nat) (name : string) (acc : mkind)
  : list Z * list Z * list Z :=
  let cs := after_gap decls mro name acc (mro p) in
  let ms := flat_map (fun c => match nth_error decls c with
                               | Some d => match own_member d name acc with Some m => [m] | None => [] end
                               | None => [] end) cs in
  (flat_map own_pre ms, flat_map own_post ms, flat_map own_snaps ms).

Definition zsubset (a b : list Z) : bool := forallb (fun x => zmem x b) a.

(** D36: for a member a class defines, the meta-class combines what attribute lookup on the *direct bases* finds: per
    base the first class on its resolution order that defines the member (whose lists hold what that class combined in
    turn).  A definer further along a base's resolution order, behind an unrelated one, is not reached:
    [class C(B, A): pass] with [B.f] and [A.f] unrelated, then [class D(C): def f] - what [A.f] declares is lost. *)
Fixpoint reached (fuel : nat) (decls : list cdecl) (mro : nat -> list nat) (name : string) (acc : mkind) (c : nat) : list nat :=
  match fuel with
  | 0 => []
  | S f =>
      c :: match nth_error decls c with
           | Some d => flat_map (fun b => match definers decls mro b name acc with
                                          | (c', _) :: _ => reached f decls mro name acc c'
                                          | [] => []
                                          end) (cd_bases d)
           | None => []
           end
  end.

Definition hidden_definers (decls : list cdecl) (mro : nat -> list nat) (p : nat) (name : string) (acc : mkind) : list nat :=
  let vis := reached (S p) decls mro name acc p in
  flat_map (fun cm => if nat_in (fst cm) vis then [] else [fst cm]) (definers decls mro p name acc).

Definition hidden_ids (decls : list cdecl) (mro : nat -> list nat) (p : nat) (name : string) (acc : mkind)
  : list Z * list Z * list Z :=
  let hid := hidden_definers decls mro p name acc in
  let ms := flat_map (fun cm => if nat_in (fst cm) hid then [snd cm] else []) (definers decls mro p name acc) in
  (flat_map own_pre ms, flat_map own_post ms, flat_map own_snaps ms).

(** D34: a class with invariants that only inherits a method (or property) puts the wrapper it makes around the inherited
    function into *its own* namespace.  Below it, in a class with a further base that overrides the member - later in
    the resolution order - attribute lookup finds that copy first: the override and its contracts are hidden. *)
Definition declares_name (d : cdecl) (name : string) : bool :=
  existsb (fun m => String.eqb (md_name m) name) (cd_members d).

Definition holds_copy (decls : list cdecl) (mro : nat -> list nat) (q : nat) (name : string) : bool :=
  match nth_error decls q with
  | Some d =>
      negb (declares_name d name)
      && negb (str_in name ["__new__"; "__repr__"; "__getattribute__"; "__init__"])
      && negb (String.eqb (substring 0 1 name) "_" && negb (is_dunder name))
      && (let invs := flat_map (fun c => match nth_error decls c with
                                         | Some dc => filter id_enabled (cd_invs dc)
                                         | None => []
                                         end) (mro q) in
          if String.eqb name "__setattr__" then existsb (fun i => on_setattr (id_check_on i)) invs
          else existsb (fun i => on_call (id_check_on i)) invs)
  | None => false
  end.

(** the class below [k] whose namespace answers the lookup of [name] on [k]: the first one (after [k]) that declares the
    member or holds a copy; [Some q] if it is a copy of another definition than the one the resolution order gives *)
Definition shadowing_copy (decls : list cdecl) (mro : nat -> list nat) (k : nat) (name : string) (acc : mkind) : option nat :=
  match find (fun q => match nth_error decls q with
                       | Some d => declares_name d name || holds_copy decls mro q name
                       | None => false
                       end) (tl (mro k)) with
  | Some q =>
      if holds_copy decls mro q name
      then match provider decls mro k name acc, provider decls mro q name acc with
           | Some p, Some p' => if Nat.eqb p p' then None else Some q
           | _, _ => None
           end
      else None
  | None => None
  end.

(** A class that only inherits a property shows the property object of the first class on its resolution order that
    declares the name - as a whole.  Where that class re-defined the property on a base's property ([@Base.p.setter]) and
    has no accessor of this kind of its own, the accessor is the one that class inherited: the provider is looked for on
    *its* resolution order (as for a method a class inherits), not on the longer one of the inheriting class, where an
    unrelated base may override the accessor further along. *)
Definition lookup_class (decls : list cdecl) (mro : nat -> list nat) (k : nat) (name : string) (acc : mkind) : nat :=
  match find (fun q => match nth_error decls q with Some d => declares_name d name | None => false end) (mro k) with
  | Some q =>
      match nth_error decls q with
      | Some d =>
          if existsb (fun m => String.eqb (md_name m) name && match md_inherit m with Some _ => true | None => false end)
                     (cd_members d)
             && negb (existsb (fun m => String.eqb (md_name m) name && acc_matches acc (md_kind m)) (cd_members d))
          then q else k
      | None => k
      end
  | None => k
  end.

(** compare the lists a member shows with the declarative effective contracts *)
Definition check_member_view (decls : list cdecl) (mro : nat -> list nat) (k : nat) (name : string) (acc : mkind)
           (v : fview) : c04_verdict :=
  match provider decls mro (lookup_class decls mro k name acc) name acc with
  | None => V_ok
  | Some p =>
      let ctor := is_ctor name in
      (* constructors take no contracts from the bases; an inherited constructor is reached through
         Python's own resolution at run time (a class with invariants and no constructor of its own
         gets a pass-on __init__), so only the class that defines it is inspected *)
      if ctor && negb (Nat.eqb p k) then V_ok else
      let groups := if ctor then (match definers decls mro p name acc with
                                  | (_, m) :: _ => filter (fun g => negb (is_nil g)) [own_pre m] | [] => [] end)
                    else declared_groups decls mro p name acc in
      let posts := if ctor then (match definers decls mro p name acc with (_, m) :: _ => own_post m | [] => [] end)
                   else declared_posts decls mro p name acc in
      let snaps := if ctor then (match definers decls mro p name acc with (_, m) :: _ => own_snaps m | [] => [] end)
                   else declared_snaps decls mro p name acc in
      let '(gap_pre, gap_post, gap_snaps) := above_gap_ids decls mro p name acc in
      let gap_class :=
        negb ctor && negb (is_nil (after_gap decls mro name acc (mro p))) &&
        (* nothing is shown that was not declared, and whatever is missing was declared above the gap *)
        zsubset (fv_post v) posts && zsubset (fv_snaps v) snaps && zsubset (List.concat (fv_pre v)) (List.concat groups) &&
        zsubset (filter (fun x => negb (zmem x (fv_post v))) posts) gap_post &&
        zsubset (filter (fun x => negb (zmem x (fv_snaps v))) snaps) gap_snaps &&
        zsubset (filter (fun x => negb (zmem x (List.concat (fv_pre v)))) (List.concat groups)) gap_pre &&
        negb (zset_eqb (fv_post v) posts && zset_eqb (fv_snaps v) snaps && gset_eqb (fv_pre v) groups) in
      let '(hid_pre, hid_post, hid_snaps) := hidden_ids decls mro p name acc in
      let hidden_class :=
        negb ctor && negb (is_nil (hidden_definers decls mro p name acc)) &&
        (* nothing is shown that was not declared, and whatever is missing was declared by a definer that is not reached *)
        zsubset (fv_post v) posts && zsubset (fv_snaps v) snaps && zsubset (List.concat (fv_pre v)) (List.concat groups) &&
        zsubset (filter (fun x => negb (zmem x (fv_post v))) posts) hid_post &&
        zsubset (filter (fun x => negb (zmem x (fv_snaps v))) snaps) hid_snaps &&
        zsubset (filter (fun x => negb (zmem x (List.concat (fv_pre v)))) (List.concat groups)) hid_pre &&
        negb (zset_eqb (fv_post v) posts && zset_eqb (fv_snaps v) snaps && gset_eqb (fv_pre v) groups) in
      let ident_class :=
        negb ctor
        && existsb (fun c => match nth_error decls c with Some d => takes_by_identity d name acc | None => false end) (mro k)
        (* nothing is shown that no class of the resolution order declared *)
        && zsubset (fv_post v) (declared_posts decls mro k name acc)
        && zsubset (fv_snaps v) (declared_snaps decls mro k name acc)
        && zsubset (List.concat (fv_pre v)) (List.concat (declared_groups decls mro k name acc)) in
      let verdict :=
        if gap_class then V_known 1 else
        if hidden_class then V_known 3 else
        if negb (zset_eqb (fv_post v) posts && zset_eqb (fv_snaps v) snaps) then V_bad
        else if negb ctor && accept_all decls mro p name acc
             then (if is_nil (fv_pre v) then V_ok
                   else if gset_eqb (fv_pre v) groups
                        then
                          (* kf_C04_accept_all: several bases, one without preconditions, *another one with* - a class
                             whose only preconditions are its own, under ancestors that accept every call, must not exist *)
                          if existsb (fun cm => negb (Nat.eqb (fst cm) p) && negb (is_nil (own_pre (snd cm))))
                                     (definers decls mro p name acc)
                          then V_known 0
                          (* ... unless the ancestor that accepts every call lies beyond a class that drops the accessor
                             (D23) or is a definer that is not reached (D36): the library does not see it *)
                          else if negb (accept_all_but decls mro (after_gap decls mro name acc (mro p)) p name acc)
                          then V_known 1
                          else if negb (accept_all_but decls mro (hidden_definers decls mro p name acc) p name acc)
                          then V_known 3
                          else V_bad
                   else V_bad)
        else if gset_eqb (fv_pre v) groups then V_ok else V_bad in
      match verdict with
      | V_bad =>
          if ident_class then V_known 1
          else match (if Nat.eqb p k then None else shadowing_copy decls mro k name acc) with
               | Some q =>
                   (* what is shown is what the class holding the copy shows *)
                   if zset_eqb (fv_post v) (declared_posts decls mro q name acc)
                      && zset_eqb (fv_snaps v) (declared_snaps decls mro q name acc)
                   then V_known 2 else V_bad
               | None => V_bad
               end
      | x => x
      end
  end.

Definition worst (a b : c04_verdict) : c04_verdict :=
  match a, b with
  | V_bad, _ | _, V_bad => V_bad
  | V_known x, _ => V_known x
  | _, V_known x => V_known x
  | _, _ => V_ok
  end.

Definition check_mview (decls : list cdecl) (mro : nat -> list nat) (k : nat) (name : string) (m : mview) : c04_verdict :=
  match m with
  | VFunc kd v => check_member_view decls mro k name kd v
  | VProp g s d =>
      worst (match g with Some v => check_member_view decls mro k name MGet v | None => V_ok end)
            (worst (match s with Some v => check_member_view decls mro k name MSet v | None => V_ok end)
                   (match d with Some v => check_member_view decls mro k name MDel v | None => V_ok end))
  | _ => V_ok
  end.

Fixpoint check_members (decls : list cdecl) (mro : nat -> list nat) (k : nat) (names : list string) (ms : list mview)
  : c04_verdict :=
  match names, ms with
  | n :: r, m :: r' => worst (check_mview decls mro k n m) (check_members decls mro k r r')
  | _, _ => V_ok
  end.

(** invariants: those declared (enabled) by the class and all its ancestors, when the whole
    resolution order was created through DBCMeta *)
Definition declared_invs (decls : list cdecl) (mro : nat -> list nat) (k : nat) : list Z :=
  flat_map (fun c => match nth_error decls c with
                     | Some d => flat_map (fun i => if id_enabled i then [cid (id_contract i)] else []) (cd_invs d)
                     | None => []
                     end) (mro k).

Definition verdict_code (v : c04_verdict) : Z :=
  match v with V_ok => 0%Z | V_known 0 => 1%Z | V_known 1 => 3%Z | V_known 2 => 4%Z | V_known _ => 5%Z | V_bad => 2%Z end.

(** C04 / C18 on the final view of a history: 0 = as declared, 1 = only known-finding classes differ, 2 = violated *)
(** Classes that were not created through the meta-class can only be roots and mix-ins of a hierarchy built on it (a
    sub-class of a meta class is a meta class).  What such a class declares for a member is combined like any other
    class's as long as it does not itself override a definition of its own (plain) ancestors - nothing is inherited
    across such an override. *)
Definition member_clean (meta : nat -> bool) (decls : list cdecl) (mro : nat -> list nat) (k : nat) (name : string) (acc : mkind)
  : bool :=
  forallb (fun c => meta c ||
                    match definers decls mro c name acc with
                    | (c', _) :: rest => negb (Nat.eqb c' c) || is_nil rest
                    | [] => true
                    end) (mro k).

Definition view_clean (meta : nat -> bool) (decls : list cdecl) (mro : nat -> list nat) (k : nat) (name : string) (m : mview) : bool :=
  match m with
  | VFunc kd _ => member_clean meta decls mro k name kd
  | VProp _ _ _ => member_clean meta decls mro k name MGet && member_clean meta decls mro k name MSet
                   && member_clean meta decls mro k name MDel
  | _ => true
  end.

Definition spec_C04_code_h (errs : list (option string)) (c : ecase) (w_model : world) (final : wview) : Z :=
  let decls := class_decls_h (e_ops c) errs in
  let mro := fun k => mro_of w_model k in
  let meta := fun j => match get_class w_model j with Some co => co_meta co | None => false end in
  let all_meta := fun k => forallb meta (mro k) in
  verdict_code
    (fold_left worst
       (map (fun kc =>
               let k := fst kc in
               if negb (is_live w_model k) then V_ok else
               (* the property is about hierarchies built on the contract-inheriting base class/metaclass *)
               if negb (meta k) then V_ok else
               (* a precondition added to a member after its class was created lands in the first group - with
                  inherited groups that is unsupported (the library asserts groups are merged by the meta-class only) *)
               let late := fun name => existsb (fun op => match op with
                                                          | DefRedecorate j n (DRequire _ true) =>
                                                              String.eqb n name && nat_in j (mro k)
                                                          | _ => false end) (e_ops c) in
               worst (check_members decls mro k (e_names c)
                                    (map (fun nm => if late (fst nm) || negb (view_clean meta decls mro k (fst nm) (snd nm))
                                                    then VAbsent else snd nm)
                                         (combine (e_names c) (cv_members (snd kc)))))
                     (* the invariants of classes that are not meta classes are not combined by the library *)
                     (if negb (all_meta k) || zset_eqb (cv_invs (snd kc)) (declared_invs decls mro k) then V_ok else V_bad))
            (combine (seq 0 (List.length (wv_classes final))) (wv_classes final)))
       V_ok).

Definition spec_C04_code (c : ecase) (w_model : world) (final : wview) : Z := spec_C04_code_h [] c w_model final.

(** ** C14: one checker per decorator stack; every foreign decorator is still on the chain, in order *)
Definition count_role (p : frole -> bool) (l : list frole) : nat := List.length (filter p l).
Definition is_checker_role (r : frole) : bool := match r with FChecker => true | _ => false end.
Definition foreign_marks (l : list frole) : list nat :=
  flat_map (fun r => match r with FForeign k => [k] | _ => [] end) l.

Definition decl_foreign (ds : list deco) : list nat :=
  rev (flat_map (fun d => match d with DForeign k => [k] | _ => [] end) ds).
Definition decl_has_contract (ds : list deco) : bool :=
  existsb (fun d => match d with DRequire _ true | DEnsure _ true => true | _ => false end) ds.

Definition single_checker_ok (ds : list deco) (v : fview) : bool :=
  Nat.leb (count_role is_checker_role (fv_chain v)) 1
  && list_eqb Nat.eqb (foreign_marks (fv_chain v)) (decl_foreign ds)
  && match rev (fv_chain v) with FOrig :: _ => true | _ => false end
  && (if decl_has_contract ds then Nat.eqb (count_role is_checker_role (fv_chain v)) 1 else true).

Fixpoint func_decls (ops : list defop) (errs : list (option string)) : list mdecl :=
  match ops, errs with
  | DefFunction m :: r, None :: e => m :: func_decls r e
  | _ :: r, _ :: e => func_decls r e
  | _, _ => []
  end.

Definition spec_C14_stacks (c : ecase) (h : list (option string * wview)) : bool :=
  match last h (None, empty_view) with
  | (_, final) =>
      forallb (fun mv => single_checker_ok (md_decos (fst mv)) (snd mv))
              (combine (func_decls (e_ops c) (map fst h)) (wv_funcs final))
      (* the metadata of every function and member is that of the original *)
      && forallb fv_meta (wv_funcs final)
      && forallb (fun cv => forallb (fun m => forallb fv_meta
                                                (match m with
                                                 | VFunc _ v => [v]
                                                 | VProp g s d => (match g with Some v => [v] | None => [] end)
                                                                  ++ (match s with Some v => [v] | None => [] end)
                                                                  ++ (match d with Some v => [v] | None => [] end)
                                                 | _ => []
                                                 end)) (cv_members cv)) (wv_classes final)
  end.

(** ** C19 / C08 (definition time): misuse is rejected when the definition is executed, with the
    documented exception; a definition without misuse is accepted.  [misuses] lists the exception
    class of every misuse present in one definition, from the declarations alone. *)
Definition enabled_contract (d : deco) : bool :=
  match d with DRequire _ true | DEnsure _ true => true | _ => false end.

Fixpoint snapshot_before_post (ds : list deco) (seen_post : bool) : bool :=
  match ds with
  | [] => false
  | DEnsure _ true :: r => snapshot_before_post r true
  | DSnapshot _ true :: r => negb seen_post || snapshot_before_post r seen_post
  | _ :: r => snapshot_before_post r seen_post
  end.

Definition stack_snap_names (ds : list deco) : list string :=
  flat_map (fun d => match d with DSnapshot s true => [sname s] | _ => [] end) ds.

Definition member_misuses (m : mdecl) : list string :=
  flat_map (fun d => match d with DInvalid e true => [e] | _ => [] end) (md_decos m)
  ++ (if sig_reserved (md_sig m) && existsb enabled_contract (md_decos m) then ["TypeError"] else [])
  ++ (if snapshot_before_post (md_decos m) false then ["ValueError"] else [])
  ++ (if has_dup (stack_snap_names (md_decos m)) then ["ValueError"] else []).

Definition snap_pairs (m : mdecl) : list (Z * string) :=
  flat_map (fun d => match d with DSnapshot s true => [(sid s, sname s)] | _ => [] end) (md_decos m).

Fixpoint dup_name_distinct_id (l : list (Z * string)) : bool :=
  match l with
  | [] => false
  | (i, n) :: r => existsb (fun p => String.eqb (snd p) n && negb (Z.eqb (fst p) i)) r || dup_name_distinct_id r
  end.

Definition class_misuses (gap_aware : nat) (decls : list cdecl) (w_before : world) (d : cdecl) (mro_new : list nat) (meta : bool)
  : list string :=
  let k := List.length decls in                 (* index this class would get *)
  let decls' := decls ++ [d] in
  let mro := fun c => if Nat.eqb c k then mro_new else mro_of w_before c in
  flat_map member_misuses (cd_members d)
  ++ flat_map (fun i => match id_invalid i with Some e => if id_enabled i then [e] else [] | None => [] end) (cd_invs d)
  ++ (if negb (forallb (is_live w_before) (cd_bases d)) then ["NameError"] else [])
  ++ (if meta
      then flat_map (fun m =>
                       if is_ctor (md_name m) then [] else
                       let acc := md_kind m in
                       (* [gap_aware]: what lies beyond a class that drops the accessor is not seen (finding D23) *)
                       (* from 2 on: nor what a definer declares that is not reached through the direct bases (finding D36) *)
                       let hidden := (if Nat.leb 1 gap_aware then after_gap decls' mro (md_name m) acc (tl (mro k)) else [])
                                     ++ (if Nat.leb 2 gap_aware then hidden_definers decls' mro k (md_name m) acc else []) in
                       let above := filter (fun cm => negb (Nat.eqb (fst cm) k) && negb (nat_in (fst cm) hidden))
                                           (definers decls' mro k (md_name m) acc) in
                       let provided := negb (is_nil above)
                                       || (str_in (md_name m) object_slots
                                           && match acc with MGet | MSet | MDel => false | _ => true end) in
                       (* a reserved parameter name on a member that carries contracts, own or inherited *)
                       (if sig_reserved (md_sig m)
                           && (negb (is_nil (declared_groups decls' mro k (md_name m) acc))
                               || negb (is_nil (declared_posts decls' mro k (md_name m) acc)))
                        then ["TypeError"] else [])
                       ++
                       (* weakening a method whose ancestors declare no precondition at all *)
                       (if negb (is_nil (own_pre m)) && provided
                           && negb (existsb (fun cm => negb (is_nil (own_pre (snd cm)))) above)
                        then ["TypeError"] else [])
                       (* the same snapshot name used by two different snapshots along the hierarchy *)
                       ++ (if dup_name_distinct_id (flat_map (fun cm => snap_pairs (snd cm))
                                                             (definers decls' mro k (md_name m) acc))
                           then ["ValueError"] else []))
                    (cd_members d)
      else []).

Definition error_ok (misuses : list string) (err : option string) : bool :=
  match err with
  | None => is_nil misuses
  | Some e => str_in e misuses
  end.

(** walks the history with the model's world (for resolution orders of the classes defined so far) *)
Fixpoint spec_errors (gap_aware : nat) (w : world) (decls : list cdecl) (ops : list defop) (h : list (option string * wview)) : bool :=
  match ops, h with
  | [], [] => true
  | op :: rest, (err, _) :: hrest =>
      let ok :=
          match op with
          | DefFunction m => error_ok (member_misuses m) err
          | DefClass d =>
              let meta := cd_dbc d || existsb (fun b => match get_class w b with Some c => co_meta c | None => false end) (cd_bases d) in
              match compute_mro w (List.length (w_classes w)) (cd_bases d) with
              | Some mro =>
                  error_ok (class_misuses gap_aware decls w d mro meta) err
                  (* an ancestor that was not created through the meta-class overrides without inheriting: what lies
                     beyond it is not combined (the properties speak of hierarchies on the contract-inheriting base), so a
                     precondition added below it may be rejected as a weakening of "no precondition at all" *)
                  || (match err with Some e => String.eqb e "TypeError" | None => false end
                      && meta
                      && negb (forallb (fun j => match get_class w j with Some co => co_meta co | None => false end) (tl mro))
                      && existsb (fun m => negb (is_nil (own_pre m))) (cd_members d))
              | None => match err with Some _ => true | None => false end     (* inconsistent hierarchy: Python's TypeError *)
              end
          | DefRedecorate _ _ _ => true         (* the decorations generated are valid ones; nothing is claimed about their errors *)
          end in
      let w' := match step_def w op with Ok w1 => w1 | Err _ => fail_def w op end in
      let decls' := match op with
                    | DefClass d => decls ++ [d]
                    | DefRedecorate k name dc =>
                        match err with
                        | Some _ => decls             (* the decoration raised: nothing was added *)
                        | None => update_nth decls k (fun d => redecorate_decl d name dc)
                        end
                    | DefFunction _ => decls
                    end in
      ok && spec_errors gap_aware w' decls' rest hrest
  | _, _ => false
  end.

Definition spec_C19_defs (c : ecase) (h : list (option string * wview)) : bool :=
  spec_errors 0 empty_world [] (e_ops c) h.

(** 0 = as specified; 3 = only the recorded finding D23 (a precondition added below a class that drops the accessor is
    not rejected although an ancestor beyond it declares none); 2 = violated *)
Definition spec_C19_defs_code (c : ecase) (h : list (option string * wview)) : Z :=
  if spec_errors 0 empty_world [] (e_ops c) h then 0%Z
  else if spec_errors 1 empty_world [] (e_ops c) h then 3%Z
  else if spec_errors 2 empty_world [] (e_ops c) h then 5%Z else 2%Z.

(** ** C18: every class created through the metaclass is announced exactly once, in creation order *)
Definition spec_C18_registered (c : ecase) (wm : world) (h : list (option string * wview)) : bool :=
  match last h (None, empty_view) with
  | (_, final) =>
      list_eqb Nat.eqb (wv_registered final)
               (filter (fun k => is_live wm k && match get_class wm k with Some co => co_meta co | None => false end)
                       (seq 0 (List.length (w_classes wm))))
  end.

(** ** C18: what [find_checker] shows is what is enforced: for every function and member the
    object it returns is the wrapper whose code evaluates the contracts *)
Definition fviews_of (m : mview) : list fview :=
  match m with
  | VFunc _ v => [v]
  | VProp g s d => (match g with Some v => [v] | None => [] end) ++ (match s with Some v => [v] | None => [] end)
                   ++ (match d with Some v => [v] | None => [] end)
  | _ => []
  end.
Definition spec_C18_introspection (h : list (option string * wview)) : bool :=
  forallb (fun st => forallb fv_intro (wv_funcs (snd st))
                     && forallb (fun cv => forallb (fun m => forallb fv_intro (fviews_of m)) (cv_members cv))
                                (wv_classes (snd st))) h.

(** ** C03 (which members carry invariant checks), from the declarations:
    public or dunder methods and property accessors defined in Python are wrapped when the class
    has invariants of the matching kind; never: _x / __x, class and static methods, __new__,
    __repr__, __getattribute__; __setattr__ only if attribute-set checking was requested;
    the constructor is wrapped whenever the class has invariants. *)
Definition declared_inv_decls (decls : list cdecl) (mro : nat -> list nat) (k : nat) : list idecl :=
  flat_map (fun c => match nth_error decls c with
                     | Some d => filter id_enabled (cd_invs d)
                     | None => []
                     end) (mro k).

Definition has_inv_wrapper (v : fview) : bool := existsb (fun r => match r with FInvWrap false => true | _ => false end) (fv_chain v).
Definition has_init_wrapper (v : fview) : bool := existsb (fun r => match r with FInvWrap true => true | _ => false end) (fv_chain v).
Definition has_new_wrapper (v : fview) : bool := existsb (fun r => match r with FNewWrap => true | _ => false end) (fv_chain v).

Definition must_wrap (name : string) (call_wanted set_wanted : bool) : bool :=
  negb (str_in name ["__new__"; "__repr__"; "__getattribute__"; "__init__"])
  && negb (is_private name)
  && (if String.eqb name "__setattr__" then set_wanted else call_wanted).

Definition selection_ok_member (strict : bool) (name : string) (call_wanted set_wanted any_inv : bool) (own_new own_init : bool) (m : mview) : bool :=
  match m with
  | VFunc MPlain v =>
      if String.eqb name "__init__" then Bool.eqb (has_init_wrapper v) any_inv && negb (has_inv_wrapper v)
      else if String.eqb name "__new__"
           then negb (has_inv_wrapper v)
                (* strict: a class that has an __init__ is not checked already by __new__ (known finding D4b otherwise) *)
                && implb (has_new_wrapper v) (any_inv && (negb own_init || negb strict))
           else Bool.eqb (has_inv_wrapper v) (must_wrap name call_wanted set_wanted) && negb (has_init_wrapper v)
  | VFunc _ v => negb (has_inv_wrapper v) && negb (has_init_wrapper v)        (* static and class methods *)
  | VProp g s d =>
      let want := must_wrap name call_wanted set_wanted in
      forallb (fun o => match o with Some v => Bool.eqb (has_inv_wrapper v) want | None => true end) [g; s; d]
  | VSlot =>
      (* nothing of [object] itself is replaced unless a check is due there: the constructor and __setattr__ *)
      negb (String.eqb name "__init__" && any_inv && negb own_new)
      && negb (String.eqb name "__setattr__" && set_wanted)
  | VAbsent => true
  end.

Fixpoint selection_ok_members (strict : bool) (names : list string) (ms : list mview) (cw sw ai on oi : bool) : bool :=
  match names, ms with
  | n :: r, m :: r' => selection_ok_member strict n cw sw ai on oi m && selection_ok_members strict r r' cw sw ai on oi
  | _, _ => true
  end.

Definition defines_in_mro (decls : list cdecl) (mro : list nat) (name : string) : bool :=
  existsb (fun c => match nth_error decls c with
                    | Some d => existsb (fun m => String.eqb (md_name m) name) (cd_members d)
                    | None => false
                    end) mro.

(** classes the library sees: created through DBCMeta along their whole resolution order, or decorated directly *)
Definition spec_C03_selection_ (strict : bool) (c : ecase) (wm : world) (h : list (option string * wview)) : bool :=
  let decls := class_decls (e_ops c) in
  let mro := fun k => mro_of wm k in
  match last h (None, empty_view) with
  | (_, final) =>
      forallb (fun kc =>
                 let k := fst kc in
                 if negb (is_live wm k) then true else
                 let all_meta := forallb (fun j => match get_class wm j with Some co => co_meta co | None => false end) (mro k) in
                 let own_decorated := match nth_error decls k with Some d => existsb id_enabled (cd_invs d) | None => false end in
                 if negb (all_meta || (own_decorated && Nat.eqb (List.length (mro k)) 1)) then true else
                 let invs := declared_inv_decls decls mro k in
                 let cw := existsb (fun i => on_call (id_check_on i)) invs in
                 let sw := existsb (fun i => on_setattr (id_check_on i)) invs in
                 selection_ok_members strict (e_names c) (cv_members (snd kc)) cw sw (negb (is_nil invs))
                                      (defines_in_mro decls (mro k) "__new__") (defines_in_mro decls (mro k) "__init__"))
              (combine (seq 0 (List.length (wv_classes final))) (wv_classes final))
  end.

(** 0 = as specified; 1 = only the known finding kf_C03_newstyle (a class with an __init__ below a
    class whose own __new__ is wrapped: invariants are evaluated between __new__ and __init__); 2 = violated *)
Definition spec_C03_selection_code (c : ecase) (wm : world) (h : list (option string * wview)) : Z :=
  if spec_C03_selection_ true c wm h then 0%Z else if spec_C03_selection_ false c wm h then 1%Z else 2%Z.


(** ** C18 / C03: the two event lists a class shows are the enabled invariants of its resolution order that were
    declared for that event (what the wrappers evaluate around calls and after attribute assignments) *)
Definition spec_C18_invlists (c : ecase) (wm : world) (h : list (option string * wview)) : bool :=
  let decls := class_decls (e_ops c) in
  let mro := fun k => mro_of wm k in
  match last h (None, empty_view) with
  | (_, final) =>
      forallb (fun kc =>
                 let k := fst kc in
                 if negb (is_live wm k) then true else
                 let all_meta := forallb (fun j => match get_class wm j with Some co => co_meta co | None => false end) (mro k) in
                 (* hierarchies built on the contract-inheriting metaclass (a plain sub-class of a decorated plain class
                    appends to its base's lists: outside the properties' scope) *)
                 if negb all_meta then true else
                 let invs := declared_inv_decls decls mro k in
                 zset_eqb (cv_invs_call (snd kc)) (map (fun i => cid (id_contract i)) (filter (fun i => on_call (id_check_on i)) invs))
                 && zset_eqb (cv_invs_set (snd kc)) (map (fun i => cid (id_contract i)) (filter (fun i => on_setattr (id_check_on i)) invs)))
              (combine (seq 0 (List.length (wv_classes final))) (wv_classes final))
  end.

(** ** C14: a member is of the kind it was declared with by the first class of the resolution order that declares
    it (a static method stays a static method, also where it is only inherited) *)
Definition declared_shape (decls : list cdecl) (mro : list nat) (name : string) : option mkind :=
  match flat_map (fun c => match nth_error decls c with
                           | Some d => match find (fun m => String.eqb (md_name m) name) (cd_members d) with
                                       | Some m => [md_kind m]
                                       | None => []
                                       end
                           | None => []
                           end) mro with
  | k :: _ => Some k
  | [] => None
  end.

Definition shape_ok (name : string) (want : option mkind) (m : mview) : bool :=
  match want, m with
  | Some MStatic, VFunc MStatic _ | Some MClassM, VFunc MClassM _ => true
  | Some MPlain, VFunc MPlain _ => true
  | Some (MGet | MSet | MDel), VProp _ _ _ => true
  | Some _, _ => false
  | None, _ => true
  end.

Definition spec_C14_kinds (c : ecase) (wm : world) (h : list (option string * wview)) : bool :=
  let decls := class_decls (e_ops c) in
  match last h (None, empty_view) with
  | (_, final) =>
      forallb (fun kc =>
                 let k := fst kc in
                 if negb (is_live wm k) then true else
                 forallb (fun nm => shape_ok (fst nm) (declared_shape decls (mro_of wm k) (fst nm)) (snd nm)
                                    (* D34: the copy a class below holds of another definition (spec_C04 reports it) *)
                                    || existsb (fun acc => match shadowing_copy decls (fun j => mro_of wm j) k (fst nm) acc with
                                                           | Some _ => true | None => false end)
                                               [MPlain; MGet; MSet; MDel])
                         (combine (e_names c) (cv_members (snd kc))))
              (combine (seq 0 (List.length (wv_classes final))) (wv_classes final))
  end.

(** ** C16: the postconditions a member shows are those of its bases - base by base, in the order of the bases, each
    base contributing the list of the definition it shows - followed by its own, in declaration order *)
Section Order.
  Variables (decls : list cdecl) (mro : nat -> list nat).

  Fixpoint eff_posts (fuel : nat) (k : nat) (name : string) (acc : mkind) : list Z :=
    match fuel with
    | 0 => []
    | S f =>
        match provider decls mro k name acc with
        | None => []
        | Some p =>
            match nth_error decls p with
            | Some d =>
                flat_map (fun b => eff_posts f b name acc) (cd_bases d)
                ++ match own_member d name acc with Some m => own_post m | None => [] end
            | None => []
            end
        end
    end.
End Order.

Definition is_prefix_of_bases (shown expected : list Z) : bool := zl_eqb shown expected.

Definition spec_C16_order (errs : list (option string)) (c : ecase) (wm : world) (final : wview) : bool :=
  let decls := class_decls_h (e_ops c) errs in
  let mro := fun k => mro_of wm k in
  let all_meta := fun k => forallb (fun j => match get_class wm j with Some co => co_meta co | None => false end) (mro k) in
  forallb (fun kc =>
             let k := fst kc in
             if negb (is_live wm k) || negb (all_meta k) then true else
             forallb (fun nm =>
                        let name := fst nm in
                        let chk := fun acc v =>
                          (* only where the set of contracts is as declared (C04): the order is then the bases' order *)
                          match check_member_view decls mro k name acc v with
                          | V_ok => if is_ctor name then true
                                    else zset_eqb (fv_post v) (eff_posts decls mro (S (List.length decls)) k name acc)
                                         && Nat.eqb (List.length (fv_post v))
                                                    (List.length (eff_posts decls mro (S (List.length decls)) k name acc))
                                         && is_prefix_of_bases (fv_post v) (eff_posts decls mro (S (List.length decls)) k name acc)
                          | _ => true
                          end in
                        match snd nm with
                        | VFunc kd v => chk kd v
                        | VProp g s d =>
                            (match g with Some v => chk MGet v | None => true end)
                            && (match s with Some v => chk MSet v | None => true end)
                            && (match d with Some v => chk MDel v | None => true end)
                        | _ => true
                        end)
                     (combine (e_names c) (cv_members (snd kc))))
          (combine (seq 0 (List.length (wv_classes final))) (wv_classes final)).
