#!/bin/bash
# Build the framework from files on disk only (offline): regenerate Gen/Generated.v from /repo and
# do a full .vo build of the Coq development.
set -e
cd "$(dirname "$0")"
mkdir -p .work evidence replays coq/Gen
python3 harness/py2coq.py coq/Gen/Generated.v || true
cd coq
coq_makefile -f _CoqProject -o Makefile > /dev/null
timeout 3000 make -k -j16 > ../.work/setup-build.log 2>&1 || { tail -30 ../.work/setup-build.log; echo "setup: some Coq files failed (checks will report them)"; }
echo "setup done"
